(* C15 — quiescent states and absence of deadlock (uses the liveness invariant of Proofs2.v). *)
From Coq Require Import List Arith Bool ZArith Lia.
From Verif Require Import C15.Model C15.Proofs C15.Proofs2.
Import ListNotations.

(* ---- quiescent states *)
Definition internal (s : st) (a : act) : bool :=
  match a with ARelease _ | AAllow _ => false | AShutdown => sd_called s | _ => true end.
Definition quiescent (c : cfg) (s : st) : Prop := forall a, internal s a = true -> step c s a = None.
Definition let_go (s : st) : Prop := forall t, In (Running t) (ws s) -> existsb (Nat.eqb t) (released s) = true.

(* what a worker that cannot move looks like *)
Lemma worker_stuck c s w : quiescent c s -> let_go s -> In w (ws s) ->
  (w = Idle /\ tasksch s = [] /\ tasks_closed s = false) \/ (w = SendReady /\ W c <= ready s) \/ w = WExit.
Proof.
  intros Q LG IN. apply In_nth_error in IN. destruct IN as [i E]. specialize (Q (AWorker i) eq_refl). cbn [step] in Q. rewrite E in Q.
  destruct w as [|t| |].
  - left. destruct (tasksch s); [|discriminate]. destruct (tasks_closed s); [discriminate|]. auto.
  - exfalso. rewrite (LG t) in Q; [discriminate|]. eapply nth_error_In; eauto.
  - right; left. split; [reflexivity|]. destruct (ready s <? W c) eqn:G; [discriminate|]. apply Nat.ltb_ge in G. exact G.
  - right; right. reflexivity.
Qed.
Lemma no_exit_in l w : existsb wexit l = false -> In w l -> w <> WExit.
Proof. intros H IN E. subst w. assert (existsb wexit l = true) by (apply existsb_exists; exists WExit; auto). congruence. Qed.
Lemma busy_all_idle l : (forall w, In w l -> w = Idle) -> busy l = 0.
Proof. induction l as [|w l IH]; intro H; [reflexivity|]. cbn [busy fold_right]. fold (busy l). rewrite (H w (or_introl eq_refl)). cbn [wbusy]. apply IH. intros; apply H; right; assumption. Qed.
Lemma busy_all_sendready l : (forall w, In w l -> w = SendReady) -> busy l = length l.
Proof. induction l as [|w l IH]; intro H; [reflexivity|]. cbn [busy fold_right length]. fold (busy l). rewrite (H w (or_introl eq_refl)). cbn [wbusy]. rewrite IH; [reflexivity|]. intros; apply H; right; assumption. Qed.
Lemma some_worker c s : length (ws s) = W c -> 1 <= W c -> exists w, In w (ws s).
Proof. intros L HW. destruct (ws s) as [|w l]; [cbn in L; lia|]. exists w. left. reflexivity. Qed.

(* The quiescent reachable states. If Shutdown has been called it has returned (and, by C15_shutdown_returns_after_every_task_ran_once,
   every task ran exactly once); if it has not, the queue is idle: the dispatcher waits in its select with nothing in the input
   channel, the backlog and the task channel empty, every worker idle, nothing to acknowledge, and the only thing that keeps a
   submitter from submitting is the environment's gate. *)
Theorem quiescent_states c progs s : 1 <= W c -> 1 <= Cin c -> reachable c progs s -> let_go s -> quiescent c s ->
  (sd_called s = true -> sd_returned s = true /\ pc s = DEnd) /\
  (sd_called s = false ->
     pc s = Main /\ inq s = [] /\ backlog s = [] /\ tasksch s = [] /\ busy (ws s) = 0 /\ ready s = 0 /\ received s = processed s /\
     forall i t r, nth_error (subs s) i = Some (t :: r) -> allowed s <= t).
Proof.
  intros HW HC R LG Q.
  destruct (reachable_inv c progs s R) as (IC & (P1 & P2 & P3 & P4 & P5) & _).
  destruct (reachable_live c progs s HW R) as (I1 & I2 & I3 & I4 & I5 & I6 & I7 & I8 & I9).
  pose proof (worker_stuck c s) as WS. pose proof (some_worker c s I1 HW) as [w0 IN0].
  pose proof (Q ADispIn eq_refl) as QI. pose proof (Q ADispReady eq_refl) as QR. pose proof (Q ADisp eq_refl) as QD. cbn [step] in QI, QR, QD.
  assert (NC : pc s <> SendDone /\ pc s <> DEnd -> tasks_closed s = false).
  { intros [A B]. destruct (tasks_closed s) eqn:TC; [|reflexivity]. destruct I7 as [I7 _]. destruct (I7 eq_refl); contradiction. }
  (* when the task channel is not closed, a stuck worker is idle with an empty task channel, or blocked on a full ready channel *)
  assert (WK : tasks_closed s = false -> forall w, In w (ws s) -> (w = Idle /\ tasksch s = []) \/ (w = SendReady /\ W c <= ready s)).
  { intros TC w IN. destruct (WS w Q LG IN) as [(A & B & _)|[A|A]]; [left; auto|right; auto|]. exfalso. eapply no_exit_in; eauto. }
  destruct (pc s) eqn:P.
  - (* Main *)
    destruct (inq s) as [|t r] eqn:QQ; [|discriminate]. destruct (in_closed s) eqn:C; [discriminate|].
    assert (RD : ready s = 0) by (destruct (ready s); [reflexivity|discriminate]).
    assert (TC : tasks_closed s = false) by (apply NC; split; discriminate). specialize (WK TC).
    assert (AI : forall w, In w (ws s) -> w = Idle /\ tasksch s = []).
    { intros w IN. destruct (WK w IN) as [A|[_ A]]; [exact A|lia]. }
    assert (T : tasksch s = []) by (apply (AI w0 IN0)).
    assert (B : busy (ws s) = 0) by (apply busy_all_idle; intros w IN; apply (AI w IN)).
    assert (BK : backlog s = []).
    { destruct (backlog s) eqn:BB; [reflexivity|]. exfalso. unfold F in I5. rewrite T, B, RD in I5. cbn in I5. assert (1 <= 0) by (apply I5; discriminate). lia. }
    split.
    + intro SC. congruence.
    + intros _. repeat split; auto.
      * unfold Counted, inflight, held, dbl in IC. rewrite P, BK, T, B, RD in IC. cbn in IC. lia.
      * intros i t r E. pose proof (Q (ASub i) eq_refl) as QS. cbn [step] in QS. rewrite E, QQ, C in QS. cbn [length negb andb] in QS.
        assert (G : 0 <? Cin c = true) by (apply Nat.ltb_lt; lia). rewrite G in QS. cbn [andb] in QS.
        destruct (t <? allowed s) eqn:TA; [discriminate|]. apply Nat.ltb_ge in TA. exact TA.
  - (* Got t: the dispatcher can always move *)
    exfalso. destruct (match backlog s with [] => length (tasksch s) <? W c | _ => false end); [discriminate|].
    destruct ((depth c <? 0)%Z || (Z.of_nat (length (backlog s)) <? depth c)%Z); discriminate.
  - (* WaitFull t: a token is in flight, so somebody can move *)
    exfalso. assert (RD : ready s = 0) by (destruct (ready s); [reflexivity|discriminate]).
    assert (TC : tasks_closed s = false) by (apply NC; split; discriminate). specialize (WK TC).
    assert (AI : forall w, In w (ws s) -> w = Idle /\ tasksch s = []).
    { intros w IN. destruct (WK w IN) as [A|[_ A]]; [exact A|lia]. }
    assert (T : tasksch s = []) by (apply (AI w0 IN0)).
    assert (B : busy (ws s) = 0) by (apply busy_all_idle; intros w IN; apply (AI w IN)).
    unfold F in I5. rewrite T, B, RD in I5. cbn in I5. lia.
  - (* SendFull t: the three buffers cannot all be full *)
    exfalso. assert (NR : W c <= length (tasksch s)).
    { destruct (backlog s); destruct (length (tasksch s) <? W c) eqn:G; try discriminate; apply Nat.ltb_ge in G; exact G. }
    assert (TC : tasks_closed s = false) by (apply NC; split; discriminate). specialize (WK TC).
    assert (AS : forall w, In w (ws s) -> w = SendReady /\ W c <= ready s).
    { intros w IN. destruct (WK w IN) as [[_ A]|A]; [|exact A]. rewrite A in NR. cbn in NR. lia. }
    assert (B : busy (ws s) = W c) by (rewrite <- I1; apply busy_all_sendready; intros w IN; apply (AS w IN)).
    pose proof (proj2 (AS w0 IN0)). unfold F in I4. lia.
  - (* SendBack *)
    exfalso. assert (NR : W c <= length (tasksch s)).
    { destruct (backlog s); [discriminate|]. destruct (length (tasksch s) <? W c) eqn:G; try discriminate; apply Nat.ltb_ge in G; exact G. }
    assert (TC : tasks_closed s = false) by (apply NC; split; discriminate). specialize (WK TC).
    assert (AS : forall w, In w (ws s) -> w = SendReady /\ W c <= ready s).
    { intros w IN. destruct (WK w IN) as [[_ A]|A]; [|exact A]. rewrite A in NR. cbn in NR. lia. }
    assert (B : busy (ws s) = W c) by (rewrite <- I1; apply busy_all_sendready; intros w IN; apply (AS w IN)).
    pose proof (proj2 (AS w0 IN0)). unfold F in I4. lia.
  - (* Drain: either branch of the select *)
    exfalso. destruct rest as [|t r]; [discriminate|].
    assert (RD : ready s = 0) by (destruct (ready s); [reflexivity|discriminate]).
    assert (NR : W c <= length (tasksch s)) by (destruct (length (tasksch s) <? W c) eqn:G; try discriminate; apply Nat.ltb_ge in G; exact G).
    assert (TC : tasks_closed s = false) by (apply NC; split; discriminate). specialize (WK TC).
    destruct (WK w0 IN0) as [[_ A]|[_ A]]; [rewrite A in NR; cbn in NR; lia|lia].
  - (* WaitAll *)
    exfalso. destruct (received s =? processed s) eqn:E; [discriminate|]. apply Nat.eqb_neq in E.
    assert (RD : ready s = 0) by (destruct (ready s); [reflexivity|discriminate]).
    assert (TC : tasks_closed s = false) by (apply NC; split; discriminate). specialize (WK TC).
    assert (AI : forall w, In w (ws s) -> w = Idle /\ tasksch s = []).
    { intros w IN. destruct (WK w IN) as [A|[_ A]]; [exact A|lia]. }
    assert (T : tasksch s = []) by (apply (AI w0 IN0)).
    assert (B : busy (ws s) = 0) by (apply busy_all_idle; intros w IN; apply (AI w IN)).
    unfold Counted, inflight, held, dbl in IC. rewrite P, T, B, RD in IC. cbn in IC. lia.
  - (* CloseTasks *) discriminate.
  - (* SendDone: Shutdown is receiving *)
    exfalso. cbn [drained] in P3. destruct (P3 eq_refl) as [_ C]. assert (SC : sd_called s = true) by congruence.
    pose proof (Q AShutdown SC) as QS. cbn [step] in QS. rewrite SC, P in QS. cbn [negb] in QS.
    destruct (sd_returned s) eqn:SR; [|discriminate]. destruct I8 as [I8 _]. specialize (I8 eq_refl). discriminate.
  - (* DEnd *)
    split; [intros _; split; [apply I8; reflexivity|reflexivity]|].
    intro SC. exfalso. cbn [drained] in P3. destruct (P3 eq_refl) as [_ C]. congruence.
  - contradiction.
Qed.

(* Corollaries in the terms of the property. *)
(* (1) no deadlock: as long as Shutdown has been called and has not returned, some goroutine can move (given that running tasks end) *)
Theorem shutdown_never_stuck c progs s : 1 <= W c -> 1 <= Cin c -> reachable c progs s -> let_go s ->
  sd_called s = true -> sd_returned s = false -> exists a, internal s a = true /\ step c s a <> None.
Proof.
  intros HW HC R LG SC SR.
  destruct (reachable_live c progs s HW R) as (I1 & _).
  (* decide quiescence over the finite list of internal actions *)
  set (acts := [ADispIn; ADispReady; ADisp; AShutdown] ++ map AWorker (seq 0 (W c)) ++ map ASub (seq 0 (length (subs s)))).
  destruct (existsb (fun a => internal s a && match step c s a with Some _ => true | None => false end) acts) eqn:E.
  - apply existsb_exists in E. destruct E as (a & _ & E). apply andb_prop in E. destruct E as [E1 E2]. exists a. split; [exact E1|]. destruct (step c s a); [discriminate|discriminate].
  - exfalso. assert (Q : quiescent c s).
    { intros a IA. destruct (step c s a) eqn:ST; [|reflexivity]. exfalso.
      assert (IN : In a acts).
      { unfold acts. destruct a; cbn [internal] in IA; try discriminate.
        - apply in_or_app. right. apply in_or_app. right. apply in_map. apply in_seq. cbn [step] in ST. destruct (nth_error (subs s) i) eqn:N; [|discriminate].
          assert (i < length (subs s)) by (apply nth_error_Some; congruence). lia.
        - apply in_or_app. left. cbn. auto.
        - apply in_or_app. left. cbn. auto.
        - apply in_or_app. left. cbn. auto.
        - apply in_or_app. left. cbn. auto.
        - apply in_or_app. right. apply in_or_app. left. apply in_map. apply in_seq. cbn [step] in ST. destruct (nth_error (ws s) i) eqn:N; [|discriminate].
          assert (i < length (ws s)) by (apply nth_error_Some; congruence). lia. }
      assert (X : existsb (fun a => internal s a && match step c s a with Some _ => true | None => false end) acts = true).
      { apply existsb_exists. exists a. split; [exact IN|]. rewrite IA, ST. reflexivity. }
      congruence. }
    destruct (quiescent_states c progs s HW HC R LG Q) as [A _]. destruct (A SC) as [B _]. congruence.
Qed.
(* (2) in the idle state every task whose Submit has returned has finished, exactly once *)
Theorem idle_means_all_accepted_done c progs s : 1 <= W c -> 1 <= Cin c -> reachable c progs s -> let_go s -> quiescent c s -> sd_called s = false ->
  forall x, cnt x (finished s) + cnt x (concat (subs s)) = cnt x (concat progs).
Proof.
  intros HW HC R LG Q SC x. destruct (quiescent_states c progs s HW HC R LG Q) as [_ A]. destruct (A SC) as (P & QQ & BK & T & B & RD & _).
  destruct (reachable_inv c progs s R) as (_ & _ & IT). rewrite <- IT. unfold all_tasks, held, dbl. rewrite P, QQ, BK, T, (busy_zero_running _ B).
  cbn [app]. rewrite ?cnt_app, ?cnt_nil. lia.
Qed.
