(* C15 — property theorems only. Each is closed by [exact] of a lemma from Proofs.v and followed by Print Assumptions.
   [reachable c progs s]: s is reached from the initial state (Workers = W c, Depth = depth c, input-channel capacity Cin c,
   submitter programs progs) by some finite schedule - any interleaving of submitters, dispatcher, workers, Shutdown and the
   two environment moves. Every statement is for all such schedules. *)
From Coq Require Import List Arith Bool ZArith.
From Verif Require Import C15.Model C15.Proofs.
Import ListNotations.

(* No task is lost or duplicated: at every instant the tasks spread over submitters' programs, input channel, dispatcher's hand,
   backlog, task channel, running workers and finished list are exactly the submitted ones; received = processed + in flight;
   and the dispatcher is in a consistent phase *)
Theorem C15_tasks_conserved_and_counted : forall c progs s, reachable c progs s ->
  Counted s /\ Phase s /\ forall x, cnt x (all_tasks s) = cnt x (concat progs).
Proof. exact reachable_inv. Qed.
Print Assumptions C15_tasks_conserved_and_counted.

(* The dispatcher never indexes an empty backlog (Depth 0 included) *)
Theorem C15_no_dispatcher_panic : forall c progs s, reachable c progs s -> pc s <> DPanic.
Proof. exact no_dispatcher_panic. Qed.
Print Assumptions C15_no_dispatcher_panic.

(* When Shutdown has returned every submitted task has finished exactly once *)
Theorem C15_shutdown_returns_after_every_task_ran_once : forall c progs s, reachable c progs s -> sd_returned s = true -> pc s = DEnd ->
  forall x, cnt x (finished s) = cnt x (concat progs).
Proof. exact shutdown_returns_after_all_ran. Qed.
Print Assumptions C15_shutdown_returns_after_every_task_ran_once.

(* Never more than Workers tasks are running *)
Theorem C15_at_most_workers_running : forall c progs s, reachable c progs s -> length (ws s) = W c /\ length (running (ws s)) <= W c.
Proof. exact workers_bounded. Qed.
Print Assumptions C15_at_most_workers_running.

(* Tasks start in the order in which they entered the input channel (so, with one worker, they run in submission order) *)
Theorem C15_started_in_submission_order : forall c progs s, reachable c progs s -> exists rest, sent s = started s ++ rest.
Proof. exact started_in_submission_order. Qed.
Print Assumptions C15_started_in_submission_order.

(* ---- the hypotheses are met by real runs: a script reaches the state in which Shutdown has returned, through steps of the system *)
Module NonVacuous.
  Definition c := {| W := 1; depth := 0%Z; Cin := 4; panics := [2] |}.
  Definition progs := [seq 0 6].
  Definition s_end := fold_left (script_state c) [SAllow 6; SRel 0; SRel 3; SRel 1; SRel 2; SShutdown; SRel 4; SRel 5] (quiesce QFUEL c (init c progs)).
  Example s_end_reachable : reachable c progs s_end.
  Proof.
    unfold s_end. generalize [SAllow 6; SRel 0; SRel 3; SRel 1; SRel 2; SShutdown; SRel 4; SRel 5].
    assert (R : reachable c progs (quiesce QFUEL c (init c progs))) by (apply quiesce_reachable; constructor).
    revert R. generalize (quiesce QFUEL c (init c progs)). intros s R l. revert s R.
    induction l as [|o l IH]; intros s R; [exact R|]. cbn [fold_left]. apply IH. apply script_state_reachable, R.
  Qed.
  Example s_end_is_final : (sd_returned s_end, match pc s_end with DEnd => true | _ => false end, finished s_end, handled s_end, started s_end) = (true, true, [0; 1; 2; 3; 4; 5], [2], [0; 1; 2; 3; 4; 5]).
  Proof. vm_compute. reflexivity. Qed.
End NonVacuous.
