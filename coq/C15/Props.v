(* C15 — property theorems only. Each is closed by [exact] of a lemma from Proofs.v and followed by Print Assumptions.
   [reachable c progs s]: s is reached from the initial state (Workers = W c, Depth = depth c, input-channel capacity Cin c,
   submitter programs progs) by some finite schedule - any interleaving of submitters, dispatcher, workers, Shutdown and the
   two environment moves. Every statement is for all such schedules. *)
From Coq Require Import List Arith Bool ZArith.
From Verif Require Import C15.Model C15.Proofs C15.Proofs2 C15.Proofs3 C15.Proofs4.
Import ListNotations.

(* No task is lost or duplicated: at every instant the tasks spread over submitters' programs, input channel, dispatcher's hand,
   backlog, task channel, running workers and finished list are exactly the submitted ones; received = processed + in flight;
   and the dispatcher is in a consistent phase *)
Theorem C15_tasks_conserved_and_counted : forall c progs s, reachable c progs s ->
  Counted s /\ Phase s /\ forall x, cnt x (all_tasks s) = cnt x (concat progs).
Proof. exact reachable_inv. Qed.
Print Assumptions C15_tasks_conserved_and_counted.

(* The dispatcher never indexes an empty backlog (Depth 0 included) *)
Theorem C15_no_dispatcher_panic : forall c progs s, reachable c progs s -> pc s <> DPanic.
Proof. exact no_dispatcher_panic. Qed.
Print Assumptions C15_no_dispatcher_panic.

(* When Shutdown has returned every submitted task has finished exactly once *)
Theorem C15_shutdown_returns_after_every_task_ran_once : forall c progs s, reachable c progs s -> sd_returned s = true -> pc s = DEnd ->
  forall x, cnt x (finished s) = cnt x (concat progs).
Proof. exact shutdown_returns_after_all_ran. Qed.
Print Assumptions C15_shutdown_returns_after_every_task_ran_once.

(* Never more than Workers tasks are running *)
Theorem C15_at_most_workers_running : forall c progs s, reachable c progs s -> length (ws s) = W c /\ length (running (ws s)) <= W c.
Proof. exact workers_bounded. Qed.
Print Assumptions C15_at_most_workers_running.

(* Tasks start in the order in which they entered the input channel (so, with one worker, they run in submission order) *)
Theorem C15_started_in_submission_order : forall c progs s, reachable c progs s -> exists rest, sent s = started s ++ rest.
Proof. exact started_in_submission_order. Qed.
Print Assumptions C15_started_in_submission_order.

(* ---- liveness (Proofs2-4.v). [internal s a]: a is a move of a goroutine (submitter, dispatcher, worker, the receiving half of
   Shutdown) rather than of the environment; [quiescent c s]: no goroutine can move; [let_go s]: every running task has been
   allowed to end. Workers >= 1 as the property says; the input channel has capacity >= 1 (New makes it 2*NumCPU). ---- *)
(* No deadlock, and nothing is forgotten: a reachable state in which no goroutine can move is the one in which Shutdown has
   returned, or - Shutdown not yet called - the idle queue: dispatcher in its select, input channel, backlog and task channel empty,
   every worker idle, every completion acknowledged, and only the environment's gate keeps a submitter from submitting *)
Theorem C15_quiescent_states_are_idle_or_shut_down : forall c progs s, 1 <= W c -> 1 <= Cin c -> reachable c progs s -> let_go s -> quiescent c s ->
  (sd_called s = true -> sd_returned s = true /\ pc s = DEnd) /\
  (sd_called s = false ->
     pc s = Main /\ inq s = [] /\ backlog s = [] /\ tasksch s = [] /\ busy (ws s) = 0 /\ ready s = 0 /\ received s = processed s /\
     forall i t r, nth_error (subs s) i = Some (t :: r) -> allowed s <= t).
Proof. exact quiescent_states. Qed.
Print Assumptions C15_quiescent_states_are_idle_or_shut_down.
(* hence in the idle state every task whose Submit has returned has finished, exactly once *)
Theorem C15_idle_queue_has_run_every_accepted_task : forall c progs s, 1 <= W c -> 1 <= Cin c -> reachable c progs s -> let_go s -> quiescent c s -> sd_called s = false ->
  forall x, cnt x (finished s) + cnt x (concat (subs s)) = cnt x (concat progs).
Proof. exact idle_means_all_accepted_done. Qed.
Print Assumptions C15_idle_queue_has_run_every_accepted_task.
(* and while Shutdown is waiting some goroutine can always move *)
Theorem C15_shutdown_is_never_stuck : forall c progs s, 1 <= W c -> 1 <= Cin c -> reachable c progs s -> let_go s ->
  sd_called s = true -> sd_returned s = false -> exists a, internal s a = true /\ step c s a <> None.
Proof. exact shutdown_never_stuck. Qed.
Print Assumptions C15_shutdown_is_never_stuck.
(* Termination: every move of a goroutine decreases the measure M (13 per task still to be submitted, 12 per task in the input
   channel, ..., 2 per unacknowledged completion) *)
Theorem C15_every_goroutine_move_decreases_the_measure : forall c s a s', step c s a = Some s' -> internal s a = true -> Phase s -> M s' < M s.
Proof. exact internal_step_decreases. Qed.
Print Assumptions C15_every_goroutine_move_decreases_the_measure.
(* SHUTDOWN RETURNS UNDER EVERY SCHEDULE, fair or not: once Shutdown has been called and the tasks have been let go, every run of
   the goroutines is at most M s moves long, and when it cannot be continued Shutdown has returned with every submitted task
   finished exactly once *)
Theorem C15_shutdown_returns_under_every_schedule : forall c progs s l s', 1 <= W c -> 1 <= Cin c ->
  reachable c progs s -> sd_called s = true -> all_released progs s -> isteps c s l s' ->
  length l <= M s /\ (quiescent c s' -> sd_returned s' = true /\ pc s' = DEnd /\ forall x, cnt x (finished s') = cnt x (concat progs)).
Proof. exact shutdown_returns_under_every_schedule. Qed.
Print Assumptions C15_shutdown_returns_under_every_schedule.
(* the runner the correspondence check evaluates the model with stops in a quiescent state - not because it ran out of fuel -
   whenever the fuel is at least the measure *)
Theorem C15_quiesce_reaches_quiescence : forall c progs fuel s, reachable c progs s -> M s <= fuel -> quiescent c (quiesce fuel c s).
Proof. exact quiesce_reaches_quiescence. Qed.
Print Assumptions C15_quiesce_reaches_quiescence.

(* ---- the hypotheses are met by real runs: a script reaches the state in which Shutdown has returned, through steps of the system *)
Module NonVacuous.
  Definition c := {| W := 1; depth := 0%Z; Cin := 4; panics := [2] |}.
  Definition progs := [seq 0 6].
  Definition s_end := fold_left (script_state c) [SAllow 6; SRel 0; SRel 3; SRel 1; SRel 2; SShutdown; SRel 4; SRel 5] (quiesce QFUEL c (init c progs)).
  Example s_end_reachable : reachable c progs s_end.
  Proof.
    unfold s_end. generalize [SAllow 6; SRel 0; SRel 3; SRel 1; SRel 2; SShutdown; SRel 4; SRel 5].
    assert (R : reachable c progs (quiesce QFUEL c (init c progs))) by (apply quiesce_reachable; constructor).
    revert R. generalize (quiesce QFUEL c (init c progs)). intros s R l. revert s R.
    induction l as [|o l IH]; intros s R; [exact R|]. cbn [fold_left]. apply IH. apply script_state_reachable, R.
  Qed.
  Example s_end_is_final : (sd_returned s_end, match pc s_end with DEnd => true | _ => false end, finished s_end, handled s_end, started s_end) = (true, true, [0; 1; 2; 3; 4; 5], [2], [0; 1; 2; 3; 4; 5]).
  Proof. vm_compute. reflexivity. Qed.
  (* the liveness hypotheses are met: a reachable state with Shutdown called but not returned, every task let go, measure within the runner's fuel *)
  Definition s_mid := match step c (fold_left (script_state c) [SAllow 6; SRel 0; SRel 1; SRel 2; SRel 3; SRel 4; SRel 5] (init c progs)) AShutdown with Some x => x | None => init c progs end.
  Example s_mid_meets_the_hypotheses :
    (sd_called s_mid, sd_returned s_mid, forallb (fun t => existsb (Nat.eqb t) (released s_mid)) (concat progs), M s_mid <=? QFUEL, M (init c progs) <=? QFUEL) = (true, false, true, true, true).
  Proof. vm_compute. reflexivity. Qed.
End NonVacuous.
