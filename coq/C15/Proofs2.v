(* C15 — absence of deadlock over every schedule: a reachable state in which no goroutine can move (and every running task has
   been let go by the environment) is either the idle queue waiting for more Submit calls / for Shutdown, with every accepted task
   finished, or the state in which Shutdown has returned. The argument needs two facts about the tokens in flight between the
   dispatcher and the workers, F = |tasks channel| + busy workers + |ready channel|:
     - the dispatcher's blocking send `tasks <- ...` always follows a receive from `ready`, so F <= 3*Workers - 1 there and the three
       buffers cannot all be full (that is the deadlock the hand-off without `<-ready` would have);
     - a non-empty backlog (and the wait of the bounded-depth branch) always has a token in flight that will wake the dispatcher. *)
From Coq Require Import List Arith Bool ZArith Lia.
From Verif Require Import C15.Model C15.Proofs.
Import ListNotations.

Definition F (s : st) : nat := length (tasksch s) + busy (ws s) + ready s.
Definition wexit (w : wst) : bool := match w with WExit => true | _ => false end.

Definition Live (c : cfg) (s : st) : Prop :=
  length (ws s) = W c /\
  length (tasksch s) <= W c /\
  ready s <= W c /\
  (match pc s with SendBack | SendFull _ => F s + 1 <= 3 * W c | _ => True end) /\
  (match pc s with Main | Got _ => backlog s <> [] -> 1 <= F s | WaitFull _ => 1 <= F s | _ => True end) /\
  (tasks_closed s = false -> existsb wexit (ws s) = false) /\
  (tasks_closed s = true <-> (pc s = SendDone \/ pc s = DEnd)) /\
  (sd_returned s = true <-> pc s = DEnd) /\
  in_closed s = sd_called s.

Lemma busy_le_length l : busy l <= length l.
Proof. induction l as [|w l IH]; [cbn; lia|]. cbn [busy fold_right length]. fold (busy l). destruct w; cbn [wbusy]; lia. Qed.
Lemma existsb_upd l : forall i w, existsb wexit l = false -> wexit w = false -> existsb wexit (upd l i w) = false.
Proof.
  induction l as [|a l IH]; intros [|i] w H Hw; unfold upd in *; cbn [firstn skipn app existsb] in *; try reflexivity.
  - apply orb_false_iff in H. destruct H as [_ H]. rewrite Hw, H. reflexivity.
  - apply orb_false_iff in H. destruct H as [Ha H]. rewrite Ha. cbn [orb]. apply IH; assumption.
Qed.
Lemma init_live c progs : Live c (init c progs).
Proof.
  unfold Live, F. cbn [init ws tasksch ready pc backlog tasks_closed sd_returned in_closed sd_called length].
  repeat split; intros; try discriminate; try lia; try (exfalso; congruence); try tauto.
  - apply repeat_length.
  - clear. induction (W c); cbn; auto.
  - destruct H; discriminate.
Qed.

Ltac lv := unfold Live, F in *; cbn [subs inq pc backlog tasksch ws finished started released handled allowed received processed ready in_closed sd_called sd_returned tasks_closed] in *.
Ltac lsolve :=
  repeat match goal with |- _ /\ _ => split end;
  try assumption; try lia; try reflexivity;
  try solve [intros; try discriminate; try lia; try congruence; try tauto; intuition (try discriminate; try congruence; try lia)].

Theorem step_live c s a s' : 1 <= W c -> step c s a = Some s' -> Phase s -> Live c s -> Live c s'.
Proof.
  intros HW H PH I. destruct PH as (P1 & P2 & P3 & P4 & P5).
  destruct I as (I1 & I2 & I3 & I4 & I5 & I6 & I7 & I8 & I9).
  pose proof (busy_le_length (ws s)) as BL.
  destruct a; cbn [step] in H.
  - destruct (nth_error (subs s) i) as [[|t r]|] eqn:E; try discriminate.
    destruct ((length (inq s) <? Cin c) && negb (in_closed s) && (t <? allowed s)); [|discriminate]. injection H as <-. lv. lsolve.
  - destruct (negb (sd_called s)) eqn:SC.
    + destruct (forallb _ _); [|discriminate]. injection H as <-. lv. lsolve.
      split; [discriminate|]. intro Q. rewrite Q in P3. cbn [drained] in P3. destruct (P3 eq_refl) as [_ C]. apply negb_true_iff in SC. congruence.
    + destruct (pc s) eqn:P; try discriminate. destruct (sd_returned s); [discriminate|]. injection H as <-. lv. lsolve.
  - destruct (pc s) eqn:P; try discriminate. destruct (inq s) as [|t r] eqn:Q.
    + destruct (in_closed s) eqn:C; [|discriminate]. injection H as <-. unfold set_pc. lv. lsolve.
    + injection H as <-. lv. lsolve.
  - destruct (ready s) as [|rd] eqn:R; [discriminate|].
    destruct (pc s) eqn:P; try discriminate; injection H as <-; lv; try solve [lsolve].
    destruct (backlog s) eqn:B; lsolve.
  - destruct (pc s) eqn:P; try discriminate.
    + destruct (match backlog s with [] => length (tasksch s) <? W c | _ => false end) eqn:G.
      * injection H as <-. destruct (backlog s) eqn:B; [|discriminate]. apply Nat.ltb_lt in G. lv. rewrite ?app_length. cbn [length]. lsolve.
      * assert (FF : 1 <= length (tasksch s) + busy (ws s) + ready s).
        { destruct (backlog s) eqn:B; [apply Nat.ltb_ge in G; lia|apply I5; discriminate]. }
        destruct ((depth c <? 0)%Z || (Z.of_nat (length (backlog s)) <? depth c)%Z); injection H as <-; lv; lsolve.
    + destruct (backlog s) as [|b r] eqn:B; (destruct (length (tasksch s) <? W c) eqn:G; [|discriminate]); injection H as <-; apply Nat.ltb_lt in G; lv; rewrite ?app_length; cbn [length]; lsolve.
    + destruct (backlog s) as [|b r] eqn:B.
      * exfalso. apply P2; reflexivity.
      * destruct (length (tasksch s) <? W c) eqn:G; [|discriminate]. injection H as <-. apply Nat.ltb_lt in G. lv. rewrite ?app_length. cbn [length]. lsolve.
    + destruct rest as [|t r].
      * injection H as <-. lv. lsolve.
      * destruct (length (tasksch s) <? W c) eqn:G; [|discriminate]. injection H as <-. apply Nat.ltb_lt in G. lv. rewrite ?app_length. cbn [length]. lsolve.
    + destruct (received s =? processed s) eqn:Q; [|discriminate]. injection H as <-. lv. lsolve.
    + injection H as <-. lv. lsolve.
  - destruct (nth_error (ws s) i) as [[|t| |]|] eqn:E; try discriminate.
    + destruct (tasksch s) as [|t r] eqn:T.
      * destruct (tasks_closed s) eqn:TC; [|discriminate]. injection H as <-. pose proof (busy_upd _ _ _ WExit E) as BU. cbn [wbusy] in BU.
        lv. rewrite ?upd_length. rewrite T in *. cbn [length] in *. destruct (pc s); lsolve.
      * injection H as <-. pose proof (busy_upd _ _ _ (Running t) E) as BU. cbn [wbusy] in BU.
        lv. rewrite ?upd_length. rewrite T in *. cbn [length] in *.
        assert (X : tasks_closed s = false -> existsb wexit (upd (ws s) i (Running t)) = false) by (intro; apply existsb_upd; auto).
        destruct (pc s); lsolve.
    + destruct (existsb (Nat.eqb t) (released s)); [|discriminate]. injection H as <-. pose proof (busy_upd _ _ _ SendReady E) as BU. cbn [wbusy] in BU.
      lv. rewrite ?upd_length.
      assert (X : tasks_closed s = false -> existsb wexit (upd (ws s) i SendReady) = false) by (intro; apply existsb_upd; auto).
      destruct (pc s); lsolve.
    + destruct (ready s <? W c) eqn:G; [|discriminate]. injection H as <-. apply Nat.ltb_lt in G. pose proof (busy_upd _ _ _ Idle E) as BU. cbn [wbusy] in BU.
      lv. rewrite ?upd_length.
      assert (X : tasks_closed s = false -> existsb wexit (upd (ws s) i Idle) = false) by (intro; apply existsb_upd; auto).
      destruct (pc s); lsolve.
  - injection H as <-. lv. lsolve.
  - injection H as <-. lv. lsolve.
Qed.

Theorem reachable_live c progs s : 1 <= W c -> reachable c progs s -> Live c s.
Proof.
  intros HW R. induction R as [|s a s' R IH H]; [apply init_live|].
  eapply step_live; eauto. apply (reachable_inv c progs s R).
Qed.

