(* C15 — lemmas over every schedule of the transition system: conservation of the multiset of tasks, the in-flight counter
   invariant (received = processed + tasks between the dispatcher's hand and a worker's ready signal), no dispatcher panic,
   and - when Shutdown has returned - every submitted task finished exactly once. *)
From Coq Require Import List Arith Bool ZArith Lia Permutation.
From Verif Require Import C15.Model.
Import ListNotations.

Definition cnt (x : task) (l : list task) := count_occ Nat.eq_dec l x.
Lemma cnt_app x a b : cnt x (a ++ b) = cnt x a + cnt x b. Proof. apply count_occ_app. Qed.
Lemma cnt_cons x y l : cnt x (y :: l) = (if Nat.eq_dec y x then 1 else 0) + cnt x l.
Proof. unfold cnt; cbn. destruct (Nat.eq_dec y x); reflexivity. Qed.
Lemma cnt_nil x : cnt x [] = 0. Proof. reflexivity. Qed.
Arguments cnt : simpl never.

Definition held (s : st) : list task := match pc s with Got t | WaitFull t | SendFull t => [t] | _ => [] end.
Definition dbl (s : st) : list task :=
  match pc s with Drain rest => rest | WaitAll | CloseTasks | SendDone | DEnd | DPanic => [] | _ => backlog s end.
Definition wtasks (w : wst) : list task := match w with Running t => [t] | _ => [] end.
Definition running (l : list wst) : list task := flat_map wtasks l.
Definition all_tasks (s : st) : list task :=
  concat (subs s) ++ inq s ++ held s ++ dbl s ++ tasksch s ++ running (ws s) ++ finished s.

Lemma cnt_concat_upd x (l : list (list task)) i t r :
  nth_error l i = Some (t :: r) -> cnt x (concat (upd l i r)) + (if Nat.eq_dec t x then 1 else 0) = cnt x (concat l).
Proof.
  revert i; induction l as [|a l IH]; intros [|i] H; cbn in *; try discriminate.
  - injection H as ->. unfold upd; cbn. rewrite ?cnt_app, ?cnt_cons, ?cnt_app. lia.
  - unfold upd in *; cbn. rewrite ?cnt_app. specialize (IH i H). cbn in IH. lia.
Qed.
Lemma cnt_running_upd x (l : list wst) i w0 w :
  nth_error l i = Some w0 -> cnt x (running (upd l i w)) + cnt x (wtasks w0) = cnt x (running l) + cnt x (wtasks w).
Proof.
  revert i; induction l as [|a l IH]; intros [|i] H; cbn [nth_error] in H; try discriminate.
  - injection H as ->. unfold upd, running; cbn [firstn skipn app flat_map]. rewrite ?cnt_app. lia.
  - specialize (IH i H). unfold upd, running in *. cbn [firstn skipn app flat_map]. 
    change (flat_map wtasks (firstn i l ++ match skipn i l with [] => [] | _ :: r => w :: r end)) with (running (upd l i w)) in *.
    rewrite ?cnt_app. unfold running, upd in *. lia.
Qed.

Ltac cn := unfold all_tasks, held, dbl; cbn [subs inq pc backlog tasksch ws finished started released handled allowed]; rewrite ?cnt_app, ?cnt_cons, ?cnt_nil.

Theorem step_conserves c s a s' x :
  step c s a = Some s' -> pc s' <> DPanic -> cnt x (all_tasks s') = cnt x (all_tasks s).
Proof.
  intros H NP. destruct a; cbn [step] in H.
  - (* submit *)
    destruct (nth_error (subs s) i) as [[|t r]|] eqn:E; try discriminate.
    destruct ((length (inq s) <? Cin c) && negb (in_closed s) && (t <? allowed s)); [|discriminate]. injection H as <-.
    pose proof (cnt_concat_upd x _ _ _ _ E). cn. destruct (pc s); cn; lia.
  - (* shutdown *)
    destruct (negb (sd_called s)).
    + destruct (forallb _ _); [|discriminate]. injection H as <-. cn. destruct (pc s); cn; lia.
    + destruct (pc s) eqn:P; try discriminate. destruct (sd_returned s); [discriminate|]. injection H as <-. cn. rewrite P. cn. lia.
  - (* dispatcher receives from in *)
    destruct (pc s) eqn:P; try discriminate. destruct (inq s) as [|t r] eqn:Q.
    + destruct (in_closed s); [|discriminate]. injection H as <-. unfold set_pc. cn. rewrite P, Q. cn. lia.
    + injection H as <-. cn. rewrite P, Q. cn. lia.
  - (* dispatcher receives ready *)
    destruct (ready s) as [|rd]; [discriminate|]. destruct (pc s) eqn:P; try discriminate; injection H as <-; cn; rewrite P; cn; try lia.
    destruct (backlog s); cn; lia.
  - (* dispatcher internal step *)
    destruct (pc s) eqn:P; try discriminate.
    + (* Got *) destruct (match backlog s with [] => length (tasksch s) <? W c | _ => false end) eqn:G.
      * injection H as <-. cn. rewrite P. cn. destruct (backlog s); [cn; lia|discriminate].
      * destruct ((depth c <? 0)%Z || (Z.of_nat (length (backlog s)) <? depth c)%Z); injection H as <-; cn; rewrite P; cn; lia.
    + (* SendFull *) destruct (backlog s) as [|b r] eqn:B.
      * destruct (length (tasksch s) <? W c); [|discriminate]. injection H as <-. cn. rewrite P, B. cn. lia.
      * destruct (length (tasksch s) <? W c); [|discriminate]. injection H as <-. cn. rewrite P, B. cn. lia.
    + (* SendBack *) destruct (backlog s) as [|b r] eqn:B.
      * injection H as <-. cbn in NP. congruence.
      * destruct (length (tasksch s) <? W c); [|discriminate]. injection H as <-. cn. rewrite P, B. cn. lia.
    + (* Drain *) destruct rest as [|t r].
      * injection H as <-. cn. rewrite P. cn. lia.
      * destruct (length (tasksch s) <? W c); [|discriminate]. injection H as <-. cn. rewrite P. cn. lia.
    + (* WaitAll *) destruct (received s =? processed s); [|discriminate]. injection H as <-. cn. rewrite P. cn. lia.
    + (* CloseTasks *) injection H as <-. cn. rewrite P. cn. lia.
  - (* worker *)
    destruct (nth_error (ws s) i) as [[|t| |]|] eqn:E; try discriminate.
    + destruct (tasksch s) as [|t r] eqn:T.
      * destruct (tasks_closed s); [|discriminate]. injection H as <-. pose proof (cnt_running_upd x _ _ _ WExit E). cn. rewrite T. cbn [wtasks] in *. destruct (pc s); cn; lia.
      * injection H as <-. pose proof (cnt_running_upd x _ _ _ (Running t) E). cn. rewrite T. cbn [wtasks] in *. rewrite ?cnt_cons, ?cnt_nil in *. destruct (pc s); cn; lia.
    + destruct (existsb (Nat.eqb t) (released s)); [|discriminate]. injection H as <-.
      pose proof (cnt_running_upd x _ _ _ SendReady E). cn. cbn [wtasks] in *. rewrite ?cnt_cons, ?cnt_nil in *. destruct (pc s); cn; lia.
    + destruct (ready s <? W c); [|discriminate]. injection H as <-. pose proof (cnt_running_upd x _ _ _ Idle E). cn. cbn [wtasks] in *. destruct (pc s); cn; lia.
  - (* release *) injection H as <-. cn. destruct (pc s); cn; lia.
  - (* allow *) injection H as <-. cn. destruct (pc s); cn; lia.
Qed.

(* ---- in-flight counting *)
Definition wbusy (w : wst) : nat := match w with Running _ | SendReady => 1 | _ => 0 end.
Definition busy (l : list wst) : nat := fold_right (fun w a => wbusy w + a) 0 l.
Lemma busy_upd (l : list wst) i w0 w : nth_error l i = Some w0 -> busy (upd l i w) + wbusy w0 = busy l + wbusy w.
Proof.
  revert i; induction l as [|a l IH]; intros [|i] H; cbn [nth_error] in H; try discriminate.
  - injection H as ->. unfold upd; cbn [firstn skipn app busy fold_right]. lia.
  - specialize (IH i H). unfold upd in *. cbn [firstn skipn app busy fold_right] in *. fold (busy l). 
    change (fold_right (fun w1 a0 => wbusy w1 + a0) 0 (firstn i l ++ match skipn i l with [] => [] | _ :: r => w :: r end)) with (busy (firstn i l ++ match skipn i l with [] => [] | _ :: r => w :: r end)) in *.
    lia.
Qed.
Lemma busy_zero_running l : busy l = 0 -> running l = [].
Proof.
  induction l as [|w l IH]; [reflexivity|]. cbn [busy fold_right]. intro H. fold (busy l) in H.
  destruct w; cbn [wbusy] in H; try lia; unfold running in *; cbn [flat_map wtasks app]; apply IH; lia.
Qed.
Definition inflight (s : st) : nat := length (held s) + length (dbl s) + length (tasksch s) + busy (ws s) + ready s.
Definition Counted (s : st) : Prop := received s = processed s + inflight s.

Ltac ci := unfold Counted, inflight, held, dbl in *; cbn [subs inq pc backlog tasksch ws finished started released handled allowed received processed ready] in *;
           rewrite ?app_length in *; cbn [length] in *.

Ltac fin := ci; repeat match goal with H : pc _ = _ |- _ => rewrite H in *; clear H end;
           repeat match goal with H : backlog _ = _ |- _ => rewrite H in *; clear H end; cbn [length] in *; lia.
Theorem step_counted c s a s' : step c s a = Some s' -> Counted s -> Counted s'.
Proof.
  intros H I. destruct a; cbn [step] in H.
  - destruct (nth_error (subs s) i) as [[|t r]|] eqn:E; try discriminate.
    destruct ((length (inq s) <? Cin c) && negb (in_closed s) && (t <? allowed s)); [|discriminate]. injection H as <-. ci. exact I.
  - destruct (negb (sd_called s)).
    + destruct (forallb _ _); [|discriminate]. injection H as <-. ci. exact I.
    + destruct (pc s) eqn:P; try discriminate. destruct (sd_returned s); [discriminate|]. injection H as <-. ci. rewrite P in I. cbn [length] in I. lia.
  - destruct (pc s) eqn:P; try discriminate. destruct (inq s) as [|t r] eqn:Q.
    + destruct (in_closed s); [|discriminate]. injection H as <-. unfold set_pc. ci. rewrite P in I. exact I.
    + injection H as <-. ci. rewrite P in I. cbn [length] in *. lia.
  - destruct (ready s) as [|rd] eqn:R; [discriminate|]. destruct (pc s) eqn:P; try discriminate; injection H as <-; ci; rewrite ?P in *; cbn [length] in *; try lia.
    destruct (backlog s); cbn [length] in *; lia.
  - destruct (pc s) eqn:P; try discriminate.
    + destruct (match backlog s with [] => length (tasksch s) <? W c | _ => false end) eqn:G.
      * injection H as <-. fin.
      * destruct ((depth c <? 0)%Z || (Z.of_nat (length (backlog s)) <? depth c)%Z); injection H as <-; fin.
    + destruct (backlog s) as [|b r] eqn:B.
      * destruct (length (tasksch s) <? W c); [|discriminate]. injection H as <-. fin.
      * destruct (length (tasksch s) <? W c); [|discriminate]. injection H as <-. fin.
    + destruct (backlog s) as [|b r] eqn:B.
      * injection H as <-. fin.
      * destruct (length (tasksch s) <? W c); [|discriminate]. injection H as <-. fin.
    + destruct rest as [|t r].
      * injection H as <-. fin.
      * destruct (length (tasksch s) <? W c); [|discriminate]. injection H as <-. fin.
    + destruct (received s =? processed s); [|discriminate]. injection H as <-. fin.
    + injection H as <-. fin.
  - destruct (nth_error (ws s) i) as [[|t| |]|] eqn:E; try discriminate.
    + destruct (tasksch s) as [|t r] eqn:T.
      * destruct (tasks_closed s); [|discriminate]. injection H as <-. pose proof (busy_upd _ _ _ WExit E). ci. rewrite T in *. cbn [wbusy length] in *. destruct (pc s); cbn [length] in *; lia.
      * injection H as <-. pose proof (busy_upd _ _ _ (Running t) E). ci. rewrite T in *. cbn [wbusy length] in *. destruct (pc s); cbn [length] in *; lia.
    + destruct (existsb (Nat.eqb t) (released s)); [|discriminate]. injection H as <-.
      pose proof (busy_upd _ _ _ SendReady E). ci. cbn [wbusy] in *. destruct (pc s); cbn [length] in *; lia.
    + destruct (ready s <? W c); [|discriminate]. injection H as <-. pose proof (busy_upd _ _ _ Idle E). ci. cbn [wbusy] in *. destruct (pc s); cbn [length] in *; lia.
  - injection H as <-. ci. exact I.
  - injection H as <-. ci. exact I.
Qed.

(* ---- phases of the dispatcher *)
Definition drained (p : dpc) : bool := match p with Drain _ | WaitAll | CloseTasks | SendDone | DEnd => true | _ => false end.
Definition closing (p : dpc) : bool := match p with CloseTasks | SendDone | DEnd => true | _ => false end.
Definition Phase (s : st) : Prop :=
  pc s <> DPanic /\
  (pc s = SendBack -> backlog s <> []) /\
  (drained (pc s) = true -> inq s = [] /\ in_closed s = true) /\
  (in_closed s = true -> concat (subs s) = []) /\
  (closing (pc s) = true -> received s = processed s).

Lemma forallb_empty_concat (l : list (list task)) : forallb (fun p => match p with [] => true | _ => false end) l = true -> concat l = [].
Proof. induction l as [|[|x a] l IH]; cbn; [reflexivity| |discriminate]. exact IH. Qed.

Ltac ph := unfold Phase in *; cbn [subs inq pc backlog tasksch ws finished started released handled allowed received processed ready in_closed sd_called sd_returned tasks_closed] in *.
Ltac fz I3 I4 I5 :=
  repeat split; intros; cbn [drained closing] in *; try discriminate; try assumption; try reflexivity; try congruence;
  try solve [match goal with X : drained _ = true |- _ => destruct (I3 X); auto; congruence end];
  try solve [match goal with X : true = true |- _ => destruct (I3 X); auto; congruence end];
  try solve [apply I4; auto]; try solve [apply I5; auto]; try solve [apply I3; auto]; auto.

Theorem step_phase c s a s' : step c s a = Some s' -> Phase s -> Phase s'.
Proof.
  intros H I. destruct I as (I1 & I2 & I3 & I4 & I5). destruct a; cbn [step] in H.
  - destruct (nth_error (subs s) i) as [[|t r]|] eqn:E; try discriminate.
    destruct ((length (inq s) <? Cin c) && negb (in_closed s) && (t <? allowed s)) eqn:G; [|discriminate]. injection H as <-.
    apply andb_prop in G. destruct G as [G _]. apply andb_prop in G. destruct G as [_ G]. apply negb_true_iff in G.
    ph. fz I3 I4 I5.
  - destruct (negb (sd_called s)).
    + destruct (forallb _ _) eqn:F; [|discriminate]. injection H as <-. ph. fz I3 I4 I5. apply forallb_empty_concat, F.
    + destruct (pc s) eqn:P; try discriminate. destruct (sd_returned s); [discriminate|]. injection H as <-. ph. fz I3 I4 I5.
  - destruct (pc s) eqn:P; try discriminate. destruct (inq s) as [|t r] eqn:Q.
    + destruct (in_closed s) eqn:C; [|discriminate]. injection H as <-. unfold set_pc. ph. fz I3 I4 I5.
    + injection H as <-. ph. fz I3 I4 I5.
  - destruct (ready s) as [|rd] eqn:R; [discriminate|].
    destruct (pc s) eqn:P; try discriminate; injection H as <-; ph; destruct (backlog s) eqn:B; fz I3 I4 I5.
  - destruct (pc s) eqn:P; try discriminate.
    + destruct (match backlog s with [] => length (tasksch s) <? W c | _ => false end) eqn:G.
      * injection H as <-. ph. fz I3 I4 I5.
      * destruct ((depth c <? 0)%Z || (Z.of_nat (length (backlog s)) <? depth c)%Z); injection H as <-; ph; fz I3 I4 I5.
    + destruct (backlog s) as [|b r] eqn:B; (destruct (length (tasksch s) <? W c); [|discriminate]); injection H as <-; ph; fz I3 I4 I5.
    + destruct (backlog s) as [|b r] eqn:B.
      * exfalso. apply I2; reflexivity.
      * destruct (length (tasksch s) <? W c); [|discriminate]. injection H as <-. ph. fz I3 I4 I5.
    + destruct rest as [|t r].
      * injection H as <-. ph. fz I3 I4 I5.
      * destruct (length (tasksch s) <? W c); [|discriminate]. injection H as <-. ph. fz I3 I4 I5.
    + destruct (received s =? processed s) eqn:Q; [|discriminate]. injection H as <-. ph. apply Nat.eqb_eq in Q. fz I3 I4 I5.
    + injection H as <-. ph. fz I3 I4 I5.
  - destruct (nth_error (ws s) i) as [[|t| |]|] eqn:E; try discriminate.
    + destruct (tasksch s) as [|t r] eqn:T.
      * destruct (tasks_closed s); [|discriminate]. injection H as <-. ph. fz I3 I4 I5.
      * injection H as <-. ph. fz I3 I4 I5.
    + destruct (existsb (Nat.eqb t) (released s)); [|discriminate]. injection H as <-. ph. fz I3 I4 I5.
    + destruct (ready s <? W c); [|discriminate]. injection H as <-. ph. fz I3 I4 I5.
  - injection H as <-. ph. fz I3 I4 I5.
  - injection H as <-. ph. fz I3 I4 I5.
Qed.

(* ---- every schedule *)
Inductive reachable (c : cfg) (progs : list (list task)) : st -> Prop :=
| reach_init : reachable c progs (init c progs)
| reach_step s a s' : reachable c progs s -> step c s a = Some s' -> reachable c progs s'.

Lemma init_counted c progs : Counted (init c progs).
Proof. unfold Counted, inflight, held, dbl. cbn. induction (W c); cbn; [reflexivity|assumption]. Qed.
Lemma init_phase c progs : Phase (init c progs).
Proof. unfold Phase. cbn. repeat split; intros; discriminate. Qed.

Theorem reachable_inv c progs s : reachable c progs s ->
  Counted s /\ Phase s /\ forall x, cnt x (all_tasks s) = cnt x (concat progs).
Proof.
  induction 1 as [|s a s' _ (IC & IP & IT) H].
  - split; [apply init_counted|]. split; [apply init_phase|]. intro x. unfold all_tasks, held, dbl.
    cbn [init subs inq pc backlog tasksch ws finished]. assert (R : running (repeat Idle (W c)) = []) by (induction (W c); cbn; auto).
    rewrite R. rewrite ?cnt_app, ?cnt_nil. lia.
  - pose proof (step_phase c s a s' H IP) as IP'. split; [eapply step_counted; eauto|]. split; [exact IP'|].
    intro x. rewrite <- IT. apply (step_conserves c s a s' x H). apply IP'.
Qed.

(* the dispatcher never indexes an empty backlog *)
Theorem no_dispatcher_panic c progs s : reachable c progs s -> pc s <> DPanic.
Proof. intro H. apply (reachable_inv c progs s H). Qed.

(* once Shutdown has returned, the finished list holds every submitted task exactly as often as it was submitted - and nothing else is left anywhere *)
Theorem shutdown_returns_after_all_ran c progs s : reachable c progs s -> sd_returned s = true -> pc s = DEnd ->
  forall x, cnt x (finished s) = cnt x (concat progs).
Proof.
  intros R _ P x. destruct (reachable_inv c progs s R) as (IC & (I1 & I2 & I3 & I4 & I5) & IT).
  rewrite <- IT. rewrite P in *. cbn [drained closing] in *. destruct (I3 eq_refl) as [Q C]. specialize (I4 C). specialize (I5 eq_refl).
  unfold Counted, inflight, held, dbl in IC. rewrite P in IC. cbn [length] in IC.
  assert (T : tasksch s = []) by (destruct (tasksch s); [reflexivity|cbn in IC; lia]).
  assert (B : running (ws s) = []) by (apply busy_zero_running; lia).
  unfold all_tasks, held, dbl. rewrite P, Q, I4, T, B. cbn [app]. reflexivity.
Qed.

(* workers: there are never more than W of them, so never more than W tasks running *)
Lemma upd_length {A} (l : list A) i x : length (upd l i x) = length l.
Proof.
  unfold upd. rewrite app_length. destruct (skipn i l) as [|y r] eqn:E.
  - cbn. rewrite Nat.add_0_r. rewrite firstn_length. assert (length (skipn i l) = 0) by (rewrite E; reflexivity). rewrite skipn_length in H. lia.
  - cbn [length]. assert (H : length (skipn i l) = S (length r)) by (rewrite E; reflexivity). rewrite skipn_length in H. rewrite firstn_length. lia.
Qed.
Theorem workers_bounded c progs s : reachable c progs s -> length (ws s) = W c /\ length (running (ws s)) <= W c.
Proof.
  intro R. assert (L : length (ws s) = W c).
  { induction R as [|s a s' _ IH H]; [cbn; apply repeat_length|]. destruct a; cbn [step] in H;
      repeat match type of H with context[match ?x with _ => _ end] => destruct x eqn:? end; try discriminate; injection H as <-; cbn [ws]; unfold set_pc; cbn [ws];
      rewrite ?upd_length; exact IH. }
  split; [exact L|]. rewrite <- L. clear. induction (ws s) as [|w l IH]; [cbn; lia|]. unfold running in *. cbn [flat_map]. rewrite app_length. destruct w; cbn [wtasks length]; lia.
Qed.

(* ---- first in, first started: the pipeline keeps the order in which tasks entered the input channel *)
Definition Fifo (s : st) : Prop := sent s = started s ++ tasksch s ++ dbl s ++ held s ++ inq s.
Ltac fi := unfold Fifo, held, dbl in *; cbn [subs inq pc backlog tasksch ws finished started released handled allowed received processed ready sent] in *.
Ltac fifin := fi; repeat match goal with H : pc _ = _ |- _ => rewrite H in *; clear H end;
              repeat match goal with H : backlog _ = _ |- _ => rewrite H in *; clear H end;
              repeat match goal with H : tasksch _ = _ |- _ => rewrite H in *; clear H end;
              repeat match goal with H : inq _ = _ |- _ => rewrite H in *; clear H end;
              cbn [app] in *; repeat rewrite <- app_assoc in *; cbn [app] in *; try assumption; try congruence.
Theorem step_fifo c s a s' : step c s a = Some s' -> Phase s -> Fifo s -> Fifo s'.
Proof.
  intros H (I1 & I2 & I3 & I4 & I5) I. destruct a; cbn [step] in H.
  - destruct (nth_error (subs s) i) as [[|t r]|] eqn:E; try discriminate.
    destruct ((length (inq s) <? Cin c) && negb (in_closed s) && (t <? allowed s)); [|discriminate]. injection H as <-.
    fi. rewrite I. repeat rewrite <- app_assoc. reflexivity.
  - destruct (negb (sd_called s)).
    + destruct (forallb _ _); [|discriminate]. injection H as <-. fi. exact I.
    + destruct (pc s) eqn:P; try discriminate. destruct (sd_returned s); [discriminate|]. injection H as <-. fifin.
  - destruct (pc s) eqn:P; try discriminate. destruct (inq s) as [|t r] eqn:Q.
    + destruct (in_closed s); [|discriminate]. injection H as <-. unfold set_pc. fifin.
    + injection H as <-. fifin.
  - destruct (ready s) as [|rd] eqn:R; [discriminate|]. destruct (pc s) eqn:P; try discriminate; injection H as <-; try solve [fifin].
    destruct (backlog s) eqn:B; fifin.
  - destruct (pc s) eqn:P; try discriminate.
    + destruct (match backlog s with [] => length (tasksch s) <? W c | _ => false end) eqn:G.
      * injection H as <-. destruct (backlog s) eqn:B; [|discriminate]. fifin.
      * destruct ((depth c <? 0)%Z || (Z.of_nat (length (backlog s)) <? depth c)%Z); injection H as <-; fifin.
    + destruct (backlog s) as [|b r] eqn:B; (destruct (length (tasksch s) <? W c); [|discriminate]); injection H as <-; fifin.
    + destruct (backlog s) as [|b r] eqn:B.
      * exfalso. apply I2; reflexivity.
      * destruct (length (tasksch s) <? W c); [|discriminate]. injection H as <-. fifin.
    + destruct rest as [|t r].
      * injection H as <-. fifin.
      * destruct (length (tasksch s) <? W c); [|discriminate]. injection H as <-. fifin.
    + destruct (received s =? processed s); [|discriminate]. injection H as <-. fifin.
    + injection H as <-. fifin.
  - destruct (nth_error (ws s) i) as [[|t| |]|] eqn:E; try discriminate.
    + destruct (tasksch s) as [|t r] eqn:T.
      * destruct (tasks_closed s); [|discriminate]. injection H as <-. fi. rewrite T in I. exact I.
      * injection H as <-. fi. rewrite T in I. rewrite I. repeat rewrite <- app_assoc. reflexivity.
    + destruct (existsb (Nat.eqb t) (released s)); [|discriminate]. injection H as <-. fi. exact I.
    + destruct (ready s <? W c); [|discriminate]. injection H as <-. fi. exact I.
  - injection H as <-. fi. exact I.
  - injection H as <-. fi. exact I.
Qed.

Theorem started_in_submission_order c progs s : reachable c progs s -> exists rest, sent s = started s ++ rest.
Proof.
  intro R. assert (F : Fifo s).
  { induction R as [|s a s' R IH H]; [reflexivity|]. apply (step_fifo c s a s' H); [apply (reachable_inv c progs s R)|exact IH]. }
  eexists. exact F.
Qed.

(* ---- the quiescence runner only takes steps of the transition system *)
Lemma first_step_some c s : forall l s', first_step c s l = Some s' -> exists a, step c s a = Some s'.
Proof. induction l as [|a l IH]; intros s' H; [discriminate|]. cbn in H. destruct (step c s a) eqn:E; [injection H as <-; eauto|apply IH, H]. Qed.
Lemma quiesce_reachable c progs : forall fuel s, reachable c progs s -> reachable c progs (quiesce fuel c s).
Proof.
  induction fuel as [|f IH]; intros s R; [exact R|]. cbn [quiesce]. destruct (first_step c s (internal_acts c s)) as [s'|] eqn:E; [|exact R].
  apply IH. destruct (first_step_some c s _ _ E) as [a Ha]. eapply reach_step; eauto.
Qed.
Definition script_state (c : cfg) (s : st) (o : sop) : st :=
  quiesce QFUEL c (match o with
                   | SAllow n => match step c s (AAllow n) with Some s' => s' | None => s end
                   | SRel t => match step c s (ARelease t) with Some s' => s' | None => s end
                   | SShutdown => if sd_called s then s else match step c s AShutdown with Some s' => s' | None => s end
                   end).
Lemma script_state_reachable c progs s o : reachable c progs s -> reachable c progs (script_state c s o).
Proof.
  intro R. unfold script_state. apply quiesce_reachable. destruct o as [n|t|].
  - destruct (step c s (AAllow n)) eqn:E; [eapply reach_step; eauto|exact R].
  - destruct (step c s (ARelease t)) eqn:E; [eapply reach_step; eauto|exact R].
  - destruct (sd_called s); [exact R|]. destruct (step c s AShutdown) eqn:E; [eapply reach_step; eauto|exact R].
Qed.
