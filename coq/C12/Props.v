(* C12 — property theorems only. Each is closed by [exact] of a lemma from Proofs.v and followed by Print Assumptions.
   Files are indexed 0 = the log path, k = backup path-k; contents are lists of runs (write id, byte count); the stream is
   path-MaxBackups ... path-1, path read in that order. All statements are for every history of writes, closes and syncs -
   hence for every interleaving of writers whose Write calls are atomic (the rotator's mutex, trusted and sampled). *)
From Coq Require Import ZArith List Bool Arith.
From Verif Require Import C12.Model C12.Proofs.
Import ListNotations.
Open Scope Z_scope.

(* Every Write returns after at most one rotation (fuel 2 suffices for every size, also sizes above MaxSize), and this is the state it leaves *)
Theorem C12_write_returns : forall maxSize maxBackups r id sz fuel, (2 <= fuel)%nat ->
  write maxSize maxBackups fuel r id sz =
  WOk (append (if must_rotate maxSize r sz then reopen (rotate maxBackups (reopen r)) else reopen r) id sz).
Proof. exact write_result. Qed.
Print Assumptions C12_write_returns.

(* so the model's run never reports a write that does not return: it is the list of file maps of the successive states *)
Theorem C12_run_total : forall maxSize maxBackups ops r,
  run maxSize maxBackups (Some r) ops = map (fun r' => Some (files r')) (states maxSize maxBackups r ops).
Proof. exact run_states. Qed.
Print Assumptions C12_run_total.

(* The retained files, oldest first, are a suffix of (what was there) ++ (everything written), run by run: nothing duplicated,
   reordered or torn, whatever the sizes, the configuration, the closes and re-opens *)
Theorem C12_stream_is_suffix_of_everything_written : forall maxSize maxBackups ops r,
  exists dropped, stream maxBackups r ++ written ops = dropped ++ stream maxBackups (final maxSize maxBackups r ops).
Proof. exact stream_is_suffix. Qed.
Print Assumptions C12_stream_is_suffix_of_everything_written.

(* ... and one operation loses at most the oldest file; nothing at all while the oldest slot is still empty *)
Theorem C12_only_the_oldest_file_is_dropped : forall maxSize maxBackups r o,
  exists gone, stream maxBackups r ++ written [o] = gone ++ stream maxBackups (next maxSize maxBackups r o) /\ (gone = [] \/ gone = oldest maxBackups r).
Proof. exact next_stream. Qed.
Print Assumptions C12_only_the_oldest_file_is_dropped.
Theorem C12_nothing_lost_while_slot_free : forall maxSize maxBackups r o, oldest maxBackups r = [] ->
  stream maxBackups (next maxSize maxBackups r o) = stream maxBackups r ++ written [o].
Proof. exact nothing_lost_while_slot_free. Qed.
Print Assumptions C12_nothing_lost_while_slot_free.

(* A write lands whole at the end of the current log file *)
Theorem C12_write_lands_whole_in_current_file : forall maxSize maxBackups r id sz,
  exists c, flook (files (next maxSize maxBackups r (OWrite id sz))) 0%nat = Some (c ++ body id sz).
Proof. exact write_lands_whole. Qed.
Print Assumptions C12_write_lands_whole_in_current_file.

Theorem C12_close_and_sync_change_no_file : forall maxSize maxBackups r,
  files (next maxSize maxBackups r OClose) = files r /\ files (next maxSize maxBackups r OSync) = files r.
Proof. exact close_sync_keep_files. Qed.
Print Assumptions C12_close_and_sync_change_no_file.

(* Limits: starting from files within the limits, after any history every file has index <= MaxBackups and is within MaxSize
   unless it consists of one single write *)
Theorem C12_limits_hold : forall maxSize maxBackups pre ops, pre_ok maxSize maxBackups pre -> sizes_ok ops ->
  Inv maxSize maxBackups (final maxSize maxBackups (start pre) ops).
Proof. intros maxSize maxBackups pre ops Hp Hs. exact (Inv_final maxSize maxBackups ops (start pre) (Inv_start maxSize maxBackups pre Hp) Hs). Qed.
Print Assumptions C12_limits_hold.

(* ---- satisfiable hypotheses, and the behaviours the statements talk about do occur *)
Module NonVacuous.
  Definition pre : fs := [(0%nat, [(201, 3)]); (2%nat, [(202, 9)])].
  Definition ops := [OWrite 1 4; OWrite 2 4; OClose; OWrite 3 25; OWrite 4 0; OWrite 5 1; OSync; OWrite 6 10; OWrite 7 1].
  Example pre_within_limits : pre_ok 10 2 pre.
  Proof.
    intros k c H. destruct k as [|[|[|k]]]; vm_compute in H; try discriminate; injection H as <-;
      (split; [repeat constructor|]); (split; [right; cbn; repeat constructor|repeat constructor]).
  Qed.
  Example sizes : sizes_ok ops. Proof. repeat constructor; discriminate. Qed.
  Example history : run 10 2 (Some (start pre)) ops =
    [ Some [(0%nat, [(201, 3); (1, 4)]); (2%nat, [(202, 9)])];
      Some [(0%nat, [(2, 4)]); (1%nat, [(201, 3); (1, 4)])];                         (* rotation: path-2 (202) dropped *)
      Some [(0%nat, [(2, 4)]); (1%nat, [(201, 3); (1, 4)])];
      Some [(0%nat, [(3, 25)]); (1%nat, [(2, 4)]); (2%nat, [(201, 3); (1, 4)])];     (* oversized write alone in a fresh file *)
      Some [(0%nat, []); (1%nat, [(3, 25)]); (2%nat, [(2, 4)])];                     (* empty write on an oversized file rotates *)
      Some [(0%nat, [(5, 1)]); (1%nat, [(3, 25)]); (2%nat, [(2, 4)])];
      Some [(0%nat, [(5, 1)]); (1%nat, [(3, 25)]); (2%nat, [(2, 4)])];
      Some [(0%nat, [(6, 10)]); (1%nat, [(5, 1)]); (2%nat, [(3, 25)])];
      Some [(0%nat, [(7, 1)]); (1%nat, [(6, 10)]); (2%nat, [(5, 1)])] ].
  Proof. vm_compute. reflexivity. Qed.
End NonVacuous.
