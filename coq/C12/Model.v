(* C12 — executable model of rotation.Rotator (log/rotation/rotator.go) over a file map: index 0 is the log path, index k the
   backup path-k. File contents are lists of runs (write id, byte count): the harness writes, for write id, that many bytes
   of value id, so a file read back is its run-length encoding. Write with its retry loop on fuel, rotate with the removal and
   the descending rename chain (ENOENT ignored), Close, implicit re-open picking up the existing size. No proofs here. *)
From Coq Require Import ZArith List Bool Arith.
Import ListNotations.
Open Scope Z_scope.

Definition content := list (Z * Z).              (* runs: (write id, bytes), bytes > 0 *)
Definition fs := list (nat * content).
Definition flook (f : fs) (k : nat) : option content := match find (fun p => fst p =? k)%nat f with Some p => Some (snd p) | None => None end.
Definition fdel (f : fs) (k : nat) : fs := filter (fun p => negb (fst p =? k)%nat) f.
Definition fput (f : fs) (k : nat) (c : content) : fs := (k, c) :: fdel f k.
Definition frename (f : fs) (a b : nat) : fs := match flook f a with Some c => fput (fdel f a) b c | None => f end.
Definition fsize (c : content) : Z := fold_right (fun p a => snd p + a) 0 c.

Record rot := { files : fs; is_open : bool; size : Z }.
Section R.
Variables (maxSize : Z) (maxBackups : nat).

Fixpoint rename_chain (i : nat) (f : fs) : fs :=          (* for i := maxBackups; i > 0; i-- { rename (i-1) -> i } *)
  match i with O => f | S j => rename_chain j (frename f j i) end.
Definition rotate (r : rot) : rot :=
  let f := match maxBackups with
           | O => fdel (files r) 0
           | _ => rename_chain maxBackups (fdel (files r) maxBackups)
           end in
  {| files := f; is_open := false; size := 0 |}.
Definition reopen (r : rot) : rot :=
  if is_open r then r else
  match flook (files r) 0 with
  | Some c => {| files := files r; is_open := true; size := fsize c |}
  | None => {| files := fput (files r) 0 []; is_open := true; size := 0 |}
  end.
Definition append (r : rot) (id sz : Z) : rot :=
  let c := match flook (files r) 0 with Some c => c | None => [] end in
  {| files := fput (files r) 0 (if sz =? 0 then c else c ++ [(id, sz)]); is_open := true; size := size r + sz |}.

Inductive wres := WOk (r : rot) | WOutOfFuel (r : rot).
Fixpoint write (fuel : nat) (r : rot) (id sz : Z) : wres :=
  match fuel with O => WOutOfFuel r | S fu =>
    let r1 := reopen r in
    if (0 <? size r1) && (maxSize <? size r1 + sz) then write fu (rotate r1) id sz
    else WOk (append r1 id sz)
  end.
Definition close (r : rot) : rot := {| files := files r; is_open := false; size := size r |}.
End R.

Definition FUEL := 4%nat.
Inductive op := OWrite (id sz : Z) | OClose | OSync.
Definition step (maxSize : Z) (maxBackups : nat) (r : rot) (o : op) : option rot :=
  match o with
  | OClose => Some (close r)
  | OSync => Some r
  | OWrite id sz => match write maxSize maxBackups FUEL r id sz with WOk r' => Some r' | WOutOfFuel _ => None end
  end.
Definition start (pre : fs) : rot := {| files := pre; is_open := false; size := 0 |}.
(* the file map after every operation; None from the first write that does not return *)
Fixpoint run (maxSize : Z) (maxBackups : nat) (r : option rot) (ops : list op) : list (option fs) :=
  match ops with
  | [] => []
  | o :: rest =>
    match r with
    | None => None :: run maxSize maxBackups None rest
    | Some r => match step maxSize maxBackups r o with
                | Some r' => Some (files r') :: run maxSize maxBackups (Some r') rest
                | None => None :: run maxSize maxBackups None rest
                end
    end
  end.

(* the retained stream, oldest first: path-n ... path-1, path *)
Fixpoint stream_from (n : nat) (f : fs) : content :=
  match n with
  | O => match flook f 0 with Some c => c | None => [] end
  | S k => (match flook f n with Some c => c | None => [] end) ++ stream_from k f
  end.
