(* C12 — lemmas: file-map algebra, the rename chain shifts every file up by one, Write returns within two rounds, the retained
   stream is a suffix of everything written and loses only the oldest file at a rotation, size and backup-count invariants. *)
From Coq Require Import ZArith List Bool Arith Lia.
From Verif Require Import C12.Model.
Import ListNotations.
Open Scope Z_scope.

(* ---- file maps *)
Lemma flook_cons k c f k' : flook ((k, c) :: f) k' = if (k =? k')%nat then Some c else flook f k'.
Proof. unfold flook. cbn. destruct (k =? k')%nat; reflexivity. Qed.
Lemma flook_fdel f k k' : flook (fdel f k) k' = if (k' =? k)%nat then None else flook f k'.
Proof.
  induction f as [|[a c] f IH]; [cbn; destruct (k' =? k)%nat; reflexivity|].
  cbn [fdel filter fst]. destruct (Nat.eqb_spec a k) as [->|Hak]; cbn [negb].
  - fold (fdel f k). rewrite IH. rewrite flook_cons. destruct (Nat.eqb_spec k' k) as [E|H]; [reflexivity|].
    rewrite (proj2 (Nat.eqb_neq k k')) by congruence. reflexivity.
  - fold (fdel f k). rewrite !flook_cons, IH. destruct (Nat.eqb_spec a k') as [E|H]; [|reflexivity].
    rewrite (proj2 (Nat.eqb_neq k' k)) by congruence. reflexivity.
Qed.
Lemma flook_fput f k c k' : flook (fput f k c) k' = if (k' =? k)%nat then Some c else flook f k'.
Proof.
  unfold fput. rewrite flook_cons, flook_fdel. rewrite (Nat.eqb_sym k k'). destruct (k' =? k)%nat; reflexivity.
Qed.
Lemma flook_frename f a b k : a <> b ->
  flook (frename f a b) k = match flook f a with
                            | Some c => if (k =? b)%nat then Some c else if (k =? a)%nat then None else flook f k
                            | None => flook f k end.
Proof.
  intro Hab. unfold frename. destruct (flook f a) as [c|] eqn:E; [|reflexivity].
  rewrite flook_fput, flook_fdel. reflexivity.
Qed.

(* ---- the rename chain *)
Lemma rename_chain_spec : forall i f, flook f i = None ->
  let g := rename_chain i f in
  (forall k, (1 <= k <= i)%nat -> flook g k = flook f (k - 1)%nat) /\ (forall k, (i < k)%nat -> flook g k = flook f k) /\ ((1 <= i)%nat -> flook g 0%nat = None).
Proof.
  induction i as [|j IH]; intros f Hi g; subst g.
  - cbn. repeat split; intros; try lia; reflexivity.
  - cbn [rename_chain]. set (f' := frename f j (S j)).
    assert (L : forall k, flook f' k = if (k =? S j)%nat then flook f j else if (k =? j)%nat then None else flook f k).
    { intro k. unfold f'. rewrite flook_frename by lia. destruct (flook f j) as [c|] eqn:E.
      - reflexivity.
      - destruct (Nat.eqb_spec k (S j)) as [->|H1]; [exact Hi|]. destruct (Nat.eqb_spec k j) as [->|H2]; [exact E|reflexivity]. }
    assert (Hj : flook f' j = None).
    { rewrite L. rewrite Nat.eqb_refl. destruct (Nat.eqb_spec j (S j)); [lia|reflexivity]. }
    destruct (IH f' Hj) as (A & Bq & C). repeat split.
    + intros k Hk. destruct (Nat.eq_dec k (S j)) as [->|Hne].
      * rewrite Bq by lia. rewrite L, Nat.eqb_refl. f_equal. lia.
      * rewrite A by lia. rewrite L. destruct (Nat.eqb_spec (k - 1) (S j)); [lia|]. destruct (Nat.eqb_spec (k - 1) j); [lia|reflexivity].
    + intros k Hk. rewrite Bq by lia. rewrite L. destruct (Nat.eqb_spec k (S j)); [lia|]. destruct (Nat.eqb_spec k j); [lia|reflexivity].
    + intros _. destruct j as [|j'].
      * cbn [rename_chain]. exact Hj.
      * apply C. lia.
Qed.

Definition file (f : fs) (k : nat) : content := match flook f k with Some c => c | None => [] end.
Lemma stream_from_S n f : stream_from (S n) f = file f (S n) ++ stream_from n f.
Proof. reflexivity. Qed.
Lemma stream_from_0 f : stream_from 0 f = file f 0. Proof. reflexivity. Qed.
Lemma stream_from_ext : forall n f g, (forall k, (k <= n)%nat -> flook g k = flook f k) -> stream_from n g = stream_from n f.
Proof.
  induction n as [|n IH]; intros f g H.
  - rewrite !stream_from_0. unfold file. rewrite H by lia. reflexivity.
  - rewrite !stream_from_S. unfold file at 1 2. rewrite H by lia. f_equal. apply IH. intros; apply H; lia.
Qed.
Lemma stream_from_shift : forall n f g, (forall k, (1 <= k <= S n)%nat -> flook g k = flook f (k - 1)%nat) -> flook g 0%nat = None ->
  stream_from (S n) g = stream_from n f.
Proof.
  induction n as [|n IH]; intros f g H H0.
  - rewrite stream_from_S, !stream_from_0. unfold file. rewrite H0, (H 1%nat) by lia. cbn. apply app_nil_r.
  - rewrite (stream_from_S (S n) g), (stream_from_S n f). unfold file at 1 2. rewrite (H (S (S n))) by lia. replace (S (S n) - 1)%nat with (S n) by lia. f_equal.
    apply IH; [intros; apply H; lia|exact H0].
Qed.

Section R.
Variables (maxSize : Z) (maxBackups : nat).
Notation rotate := (rotate maxBackups).
Notation write := (write maxSize maxBackups).
Definition stream (r : rot) : content := stream_from maxBackups (files r).
Definition oldest (r : rot) : content := file (files r) maxBackups.

Lemma rotate_no_current r : flook (files (rotate r)) 0%nat = None.
Proof.
  unfold Model.rotate. cbn [files]. destruct maxBackups as [|b] eqn:E.
  - rewrite flook_fdel. reflexivity.
  - assert (H : flook (fdel (files r) (S b)) (S b) = None) by (rewrite flook_fdel, Nat.eqb_refl; reflexivity).
    destruct (rename_chain_spec (S b) _ H) as (_ & _ & C). apply C. lia.
Qed.

Lemma stream_rotate r : stream r = oldest r ++ stream (rotate r).
Proof.
  unfold stream, oldest, Model.rotate. cbn [files]. destruct maxBackups as [|b] eqn:E.
  - rewrite !stream_from_0. unfold file. rewrite flook_fdel. cbn. rewrite app_nil_r. reflexivity.
  - rewrite stream_from_S. f_equal.
    assert (H : flook (fdel (files r) (S b)) (S b) = None) by (rewrite flook_fdel, Nat.eqb_refl; reflexivity).
    destruct (rename_chain_spec (S b) _ H) as (A & _ & C).
    rewrite (stream_from_shift b (fdel (files r) (S b))); [|exact A|apply C; lia].
    symmetry. apply stream_from_ext. intros k Hk. rewrite flook_fdel. destruct (Nat.eqb_spec k (S b)); [lia|reflexivity].
Qed.

Lemma stream_reopen r : stream (reopen r) = stream r.
Proof.
  unfold stream, reopen. destruct (is_open r); [reflexivity|]. destruct (flook (files r) 0%nat) as [c|] eqn:E; [reflexivity|].
  cbn [files]. assert (F : forall k, file (fput (files r) 0%nat []) k = file (files r) k).
  { intro k. unfold file. rewrite flook_fput. destruct (Nat.eqb_spec k 0) as [->|H]; [rewrite E|]; reflexivity. }
  induction maxBackups as [|n IH]; [rewrite !stream_from_0; apply F|]. rewrite !stream_from_S, F, IH. reflexivity.
Qed.

Definition body (id sz : Z) : content := if sz =? 0 then [] else [(id, sz)].
Lemma file_append r id sz k : file (files (append r id sz)) k = if (k =? 0)%nat then file (files r) 0%nat ++ body id sz else file (files r) k.
Proof.
  unfold append, file, body. cbn [files]. rewrite flook_fput. destruct (Nat.eqb_spec k 0) as [->|H]; [|reflexivity].
  destruct (sz =? 0); [rewrite app_nil_r|]; reflexivity.
Qed.
Lemma stream_append r id sz : stream (append r id sz) = stream r ++ body id sz.
Proof.
  unfold stream. induction maxBackups as [|n IH].
  - rewrite !stream_from_0, file_append. reflexivity.
  - rewrite !stream_from_S, file_append. cbn [Nat.eqb]. rewrite IH, app_assoc. reflexivity.
Qed.

(* Write returns, within two rounds, and this is what it does *)
Definition must_rotate (r : rot) (sz : Z) : bool := (0 <? size (reopen r)) && (maxSize <? size (reopen r) + sz).
Theorem write_result r id sz fuel : (2 <= fuel)%nat ->
  write fuel r id sz = WOk (append (if must_rotate r sz then reopen (rotate (reopen r)) else reopen r) id sz).
Proof.
  intro HF. destruct fuel as [|[|fuel]]; try lia. unfold must_rotate. cbn [Model.write].
  destruct ((0 <? size (reopen r)) && (maxSize <? size (reopen r) + sz)) eqn:E; [|reflexivity].
  assert (S0 : size (reopen (rotate (reopen r))) = 0).
  { unfold reopen at 1. cbn [is_open Model.rotate]. rewrite rotate_no_current. reflexivity. }
  rewrite S0. cbn. reflexivity.
Qed.

Theorem write_stream r id sz fuel : (2 <= fuel)%nat -> exists r', write fuel r id sz = WOk r' /\
  (if must_rotate r sz then stream r = oldest r ++ skipn (length (oldest r)) (stream r) /\ stream r' = skipn (length (oldest r)) (stream r) ++ body id sz
   else stream r' = stream r ++ body id sz) /\
  exists c, flook (files r') 0%nat = Some (c ++ body id sz).
Proof.
  intro HF. eexists. split; [apply write_result; exact HF|]. split.
  - destruct (must_rotate r sz).
    + rewrite stream_append, stream_reopen. rewrite <- (stream_reopen r) at 1 2 3. rewrite (stream_rotate (reopen r)).
      assert (O : oldest (reopen r) = oldest r).
      { unfold oldest, reopen. destruct (is_open r); [reflexivity|]. destruct (flook (files r) 0%nat) eqn:E; [reflexivity|]. cbn [files].
        unfold file. rewrite flook_fput. destruct (Nat.eqb_spec maxBackups 0) as [->|H]; [rewrite E|]; reflexivity. }
      rewrite O. rewrite skipn_app, skipn_all, Nat.sub_diag. cbn [skipn app]. split; reflexivity.
    + rewrite stream_append, stream_reopen. reflexivity.
  - unfold append. cbn [files]. rewrite flook_fput. cbn [Nat.eqb]. unfold body. eexists.
    destruct (sz =? 0); [rewrite app_nil_r|]; reflexivity.
Qed.
End R.

(* ---- histories *)
Section H.
Variables (maxSize : Z) (maxBackups : nat).
Notation stream := (stream maxBackups).
Notation oldest := (oldest maxBackups).
Notation must_rotate := (must_rotate maxSize).

Definition next (r : rot) (o : op) : rot :=
  match o with
  | OClose => close r
  | OSync => r
  | OWrite id sz => append (if must_rotate r sz then reopen (rotate maxBackups (reopen r)) else reopen r) id sz
  end.
Lemma step_total r o : step maxSize maxBackups r o = Some (next r o).
Proof. destruct o as [id sz| |]; try reflexivity. unfold step. rewrite write_result by (unfold FUEL; lia). reflexivity. Qed.

Fixpoint states (r : rot) (ops : list op) : list rot := match ops with [] => [] | o :: rest => next r o :: states (next r o) rest end.
Definition final (r : rot) (ops : list op) : rot := fold_left next ops r.
Lemma run_states : forall ops r, run maxSize maxBackups (Some r) ops = map (fun r' => Some (files r')) (states r ops).
Proof. induction ops as [|o ops IH]; intro r; [reflexivity|]. cbn [run states map]. rewrite step_total. f_equal. apply IH. Qed.
Lemma last_cons {A} : forall (l : list A) x d, last (x :: l) d = last l x.
Proof. induction l as [|y l IH]; intros x d; [reflexivity|]. change (last (x :: y :: l) d) with (last (y :: l) d). rewrite !IH. reflexivity. Qed.
Lemma states_final : forall ops r, last (states r ops) r = final r ops.
Proof.
  induction ops as [|o ops IH]; intro r; [reflexivity|]. cbn [states final fold_left].
  change (fold_left next ops (next r o)) with (final (next r o) ops). rewrite <- IH. apply last_cons.
Qed.

Definition written (ops : list op) : content := flat_map (fun o => match o with OWrite id sz => body id sz | _ => [] end) ops.

Lemma next_stream r o : exists gone, stream r ++ written [o] = gone ++ stream (next r o) /\ (gone = [] \/ gone = oldest r).
Proof.
  destruct o as [id sz| |]; cbn [written flat_map]; rewrite ?app_nil_r.
  - destruct (write_stream maxSize maxBackups r id sz 2 (le_n _)) as (r' & E & S & _).
    rewrite write_result in E by lia. injection E as <-. unfold next. destruct (must_rotate r sz).
    + destruct S as [S1 S2]. exists (oldest r). split; [|right; reflexivity]. rewrite S2, app_assoc, <- S1. reflexivity.
    + exists []. split; [|left; reflexivity]. rewrite S. reflexivity.
  - exists []. split; [reflexivity|left; reflexivity].
  - exists []. split; [reflexivity|left; reflexivity].
Qed.

(* the retained stream is always a suffix of what was there plus what was written *)
Theorem stream_is_suffix : forall ops r, exists dropped, stream r ++ written ops = dropped ++ stream (final r ops).
Proof.
  induction ops as [|o ops IH]; intro r.
  - exists []. cbn. rewrite app_nil_r. reflexivity.
  - destruct (next_stream r o) as (gone & E & _). destruct (IH (next r o)) as (d & E').
    exists (gone ++ d).
    assert (W : written (o :: ops) = written [o] ++ written ops) by (unfold written; cbn [flat_map]; rewrite app_nil_r; reflexivity).
    rewrite W. change (final r (o :: ops)) with (final (next r o) ops).
    rewrite app_assoc, E, <- !app_assoc, E'. reflexivity.
Qed.

(* nothing is lost while the oldest slot is empty *)
Theorem nothing_lost_while_slot_free r o : oldest r = [] -> stream (next r o) = stream r ++ written [o].
Proof. intro H. destruct (next_stream r o) as (gone & E & [->| ->]); [|rewrite H in E]; cbn [app] in E; symmetry; exact E. Qed.

(* a write lands whole at the end of the current file; close and sync change no file *)
Theorem write_lands_whole r id sz : exists c, flook (files (next r (OWrite id sz))) 0%nat = Some (c ++ body id sz).
Proof. destruct (write_stream maxSize maxBackups r id sz 2 (le_n _)) as (r' & E & _ & C). rewrite write_result in E by lia. injection E as <-. exact C. Qed.
Theorem close_sync_keep_files r : files (next r OClose) = files r /\ files (next r OSync) = files r.
Proof. split; reflexivity. Qed.

(* ---- invariants: sizes, positions *)
Definition ok_file (c : content) : Prop := (fsize c <= maxSize \/ (length c <= 1)%nat) /\ Forall (fun p => 0 < snd p) c.
Definition Inv (r : rot) : Prop :=
  (forall k c, flook (files r) k = Some c -> (k <= maxBackups)%nat /\ ok_file c) /\
  (is_open r = true -> exists c, flook (files r) 0%nat = Some c /\ size r = fsize c).

Lemma fsize_app c d : fsize (c ++ d) = fsize c + fsize d.
Proof. unfold fsize. induction c as [|p c IH]; cbn [app fold_right]; [reflexivity|]. rewrite IH. lia. Qed.
Lemma fsize_pos c : Forall (fun p => 0 < snd p) c -> 0 <= fsize c /\ (fsize c <= 0 -> c = []).
Proof.
  unfold fsize. induction 1 as [|p c Hp _ [IH1 IH2]]; cbn [fold_right]; [split; [lia|reflexivity]|]. split; [lia|]. intro. lia.
Qed.

Lemma Inv_reopen r : Inv r -> Inv (reopen r) /\ is_open (reopen r) = true.
Proof.
  intros [I1 I2]. unfold reopen. destruct (is_open r) eqn:O; [split; [split; [exact I1|intros _; apply I2; reflexivity]|exact O]|].
  destruct (flook (files r) 0%nat) as [c|] eqn:E.
  - split; [|reflexivity]. split; cbn [files is_open size]; [exact I1|]. intros _. exists c. split; [exact E|reflexivity].
  - split; [|reflexivity]. split; cbn [files is_open size].
    + intros k c. rewrite flook_fput. destruct (Nat.eqb_spec k 0) as [->|H]; [|apply I1].
      intros [= <-]. split; [lia|]. split; [right; cbn; lia|constructor].
    + intros _. exists []. rewrite flook_fput. split; reflexivity.
Qed.

Lemma Inv_rotate r : Inv r -> Inv (rotate maxBackups r).
Proof.
  intros [I1 _]. split; [|cbn; discriminate]. unfold rotate. cbn [files]. destruct maxBackups as [|b] eqn:EB.
  - intros k c. rewrite flook_fdel. destruct (k =? 0)%nat; [discriminate|]. apply I1.
  - assert (H : flook (fdel (files r) (S b)) (S b) = None) by (rewrite flook_fdel, Nat.eqb_refl; reflexivity).
    destruct (rename_chain_spec (S b) _ H) as (A & Bq & C). intros k c Hk.
    destruct (Nat.eq_dec k 0) as [->|K0]; [rewrite C in Hk by lia; discriminate|].
    destruct (le_lt_dec k (S b)) as [Hle|Hgt].
    + rewrite A in Hk by lia. rewrite flook_fdel in Hk. destruct ((k - 1 =? S b)%nat); [discriminate|].
      split; [exact Hle|]. apply (I1 _ _ Hk).
    + rewrite Bq in Hk by lia. rewrite flook_fdel in Hk. destruct ((k =? S b)%nat); [discriminate|].
      destruct (I1 _ _ Hk) as [Hb _]. lia.
Qed.

Lemma Inv_append r id sz : Inv r -> is_open r = true -> 0 <= sz -> ((0 <? size r) && (maxSize <? size r + sz) = false) -> Inv (append r id sz).
Proof.
  intros [I1 I2] O Hsz Hno. destruct (I2 O) as (c0 & E0 & S0). destruct (I1 _ _ E0) as [_ [Hok Hpos]].
  split; unfold append; cbn [files is_open size].
  - intros k c. rewrite flook_fput. destruct (Nat.eqb_spec k 0) as [->|H]; [|apply I1].
    rewrite E0. intros [= <-]. split; [lia|]. destruct (Z.eqb_spec sz 0) as [->|Hnz]; [split; assumption|].
    split; [|apply Forall_app; split; [exact Hpos|constructor; [cbn; lia|constructor]]].
    apply andb_false_iff in Hno. destruct (fsize_pos c0 Hpos) as [P1 P2]. destruct Hno as [Hno|Hno].
    + apply Z.ltb_ge in Hno. rewrite S0 in Hno. rewrite (P2 Hno). right. cbn. lia.
    + apply Z.ltb_ge in Hno. left. rewrite fsize_app. cbn. lia.
  - intros _. rewrite flook_fput. cbn [Nat.eqb]. rewrite E0. eexists. split; [reflexivity|].
    destruct (Z.eqb_spec sz 0) as [->|Hnz]; [lia|]. rewrite fsize_app. cbn. lia.
Qed.

Lemma size_after_rotate r : size (reopen (rotate maxBackups (reopen r))) = 0.
Proof. unfold reopen at 1. cbn [is_open rotate]. rewrite rotate_no_current. reflexivity. Qed.

Lemma Inv_next r o : Inv r -> (forall id sz, o = OWrite id sz -> 0 <= sz) -> Inv (next r o).
Proof.
  intros I Hsz. destruct o as [id sz| |]; cbn [next].
  - specialize (Hsz id sz eq_refl). destruct (Inv_reopen r I) as [I1 O1]. unfold Proofs.must_rotate.
    destruct ((0 <? size (reopen r)) && (maxSize <? size (reopen r) + sz)) eqn:E.
    + destruct (Inv_reopen _ (Inv_rotate _ I1)) as [I2 O2]. apply Inv_append; try assumption. rewrite size_after_rotate. reflexivity.
    + apply Inv_append; assumption.
  - destruct I as [I1 I2]. split; [exact I1|]. cbn. discriminate.
  - exact I.
Qed.

Definition sizes_ok (ops : list op) : Prop := Forall (fun o => match o with OWrite _ sz => 0 <= sz | _ => True end) ops.
Theorem Inv_final : forall ops r, Inv r -> sizes_ok ops -> Inv (final r ops).
Proof.
  induction ops as [|o ops IH]; intros r I H; [exact I|]. inversion H as [|? ? Ho Hr]; subst.
  apply IH; [|exact Hr]. apply Inv_next; [exact I|]. intros id sz ->. exact Ho.
Qed.

(* start of a history: closed, over pre-existing files that are themselves within the limits *)
Definition pre_ok (pre : fs) : Prop := forall k c, flook pre k = Some c -> (k <= maxBackups)%nat /\ ok_file c.
Lemma Inv_start pre : pre_ok pre -> Inv (start pre).
Proof. intro H. split; [exact H|]. cbn. discriminate. Qed.
End H.
