#!/usr/bin/env python3
"""seedregress.py [Cxx ...] - re-runs ./check <Cxx> quick on /repo with every stored seeded change of the given properties (all if none
given) applied in turn, and prints which are (still) detected. /repo must be clean; it is restored after every seed."""
import sys, os, json, subprocess, glob
V = os.path.dirname(os.path.dirname(os.path.abspath(__file__)))
want = set(sys.argv[1:])
def sh(cmd, cwd): return subprocess.run(cmd, shell=True, cwd=cwd, stdout=subprocess.PIPE, stderr=subprocess.STDOUT).stdout.decode("utf-8", "replace")
assert sh("git status --porcelain", "/repo").strip() == "", "/repo not clean"
rows = []
for d in sorted(glob.glob(os.path.join(V, "seeded", "C*-*"))):
    name = os.path.basename(d); pid = name.split("-")[0]
    if want and pid not in want: continue
    patch = os.path.join(d, "patch.diff")
    evf = os.path.join(V, "evidence", pid + ".json")
    saved = open(evf).read() if os.path.exists(evf) else None
    try:
        out = sh("git apply %s" % patch, "/repo")
        if out.strip():
            rows.append((name, "does-not-apply")); continue
        p = subprocess.run(["./check", pid, "quick"], cwd=V, env=dict(os.environ, VERIF_ESCALATE="0"), stdout=subprocess.PIPE, stderr=subprocess.STDOUT)
        o = p.stdout.decode("utf-8", "replace")
        rows.append((name, "detected" if p.returncode == 1 and "VIOLATION property=" + pid in o else "MISSED"))
    finally:
        sh("git checkout -- . && git clean -fdq", "/repo")
        if saved is not None: open(evf, "w").write(saved)
    print(rows[-1][0], rows[-1][1], flush=True)
print("%d seeds, %d detected" % (len(rows), sum(1 for r in rows if r[1] == "detected")))
