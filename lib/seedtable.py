#!/usr/bin/env python3
"""Regenerates DESIGN-seeds.md from seeded/*/meta.json."""
import json, glob, re, os
V = os.path.dirname(os.path.dirname(os.path.abspath(__file__)))
rows = []
for d in sorted(glob.glob(os.path.join(V, 'seeded/*/meta.json')), key=lambda p: (p.split('/')[-2].split('-')[0], int(p.split('/')[-2].split('-')[1]))):
    m = json.load(open(d)); name = d.split('/')[-2]
    v = m.get('validation', {})
    fr = v.get('first_replay') or {}
    kinds = sorted(set(re.findall(r'kind=([^, ]+)', fr.get('spec', ''))))
    rows.append((name, m.get('summary', '').replace('\n', ' ')[:260], v.get('valid_seed'), v.get('detected'), fr.get('broken', ''), ','.join(kinds)[:120]))
out = ['# Seeded property-breaking changes and what the checks said', '',
       'Generated from `seeded/*/meta.json` by `lib/seedtable.py`. Each change was written by a fresh sub-agent that saw only the property text and a '
       'scratch worktree; each was confirmed independently (applies, builds, the package\'s own tests pass, its demonstration fails with the change and '
       'passes without) and then run against `./check <id> quick` on /repo with the change applied. "first report" lists the kind tags of the first replay written. '
       'The table shows the final state; which seeds were missed at first, and what was changed in the checks because of that, is in DESIGN.md section 6.', '',
       '| seed | change (agent\'s summary, truncated) | valid | detected | what broke | first report |', '|---|---|---|---|---|---|']
for r in rows:
    out.append('| %s | %s | %s | %s | %s | %s |' % (r[0], r[1].replace('|', '\\|'), r[2], r[3], r[4].replace('|', '\\|')[:60], r[5]))
open(os.path.join(V, 'DESIGN-seeds.md'), 'w').write('\n'.join(out) + '\n')
print(len(rows), 'seeds,', sum(1 for r in rows if r[3]), 'detected')
