#!/usr/bin/env python3
"""shrink_c05.py '<case>' - minimise a failing C05 'gen'/'rect' case (drop contours, drop vertices, move vertices toward 0) keeping the
same failure kind. Prints the minimal case and its observation."""
import sys, subprocess, os, re, tempfile
V = os.path.dirname(os.path.dirname(os.path.abspath(__file__)))
def verdict(case):
    with tempfile.NamedTemporaryFile('w', suffix='.cases', delete=False) as f:
        f.write(case + "\n"); name = f.name
    try:
        out = subprocess.run([V + "/build/h-c05", "run", name], capture_output=True, text=True, timeout=60).stdout
        lines = [l for l in out.split("\n") if " => " in l]
        if not lines: return "?", ""
        d = subprocess.run([V + "/build/drv-c05"], input=lines[0] + "\n", capture_output=True, text=True, timeout=60).stdout
        parts = d.split("\t")
        return (parts[1] if len(parts) > 1 else "?"), lines[0].split(" => ", 1)[1]
    finally:
        os.remove(name)
def parse(case):
    kind, ft, op, rest = case.split(" ", 3)
    a, b = rest.split("|")
    P = lambda s: [[tuple(int(x) for x in v.split(",")) for v in c.split()] for c in s.strip().split(";") if c.strip() and c.strip() != "-"]
    return kind, ft, op, P(a), P(b)
def show(kind, ft, op, a, b):
    S = lambda p: ";".join(" ".join("%d,%d" % v for v in c) for c in p) if p else "-"
    return "%s %s %s %s | %s" % (kind, ft, op, S(a), S(b))
case = sys.argv[1]
want = set(re.findall(r"kind=([\w\-.]+)", verdict(case)[0]))
assert want, "case does not fail"
kind, ft, op, a, b = parse(case)
step = 8 if kind == "gen" else 1
def fails(a, b):
    v, _ = verdict(show(kind, ft, op, a, b))
    return bool(set(re.findall(r"kind=([\w\-.]+)", v)) & want)
changed = True
while changed:
    changed = False
    for which in (0, 1):
        p = [a, b][which]
        for i in range(len(p)):                       # drop a contour
            q = p[:i] + p[i + 1:]
            na, nb = (q, b) if which == 0 else (a, q)
            if fails(na, nb): a, b, changed = na, nb, True; break
        if changed: break
        for i in range(len(p)):                       # drop a vertex
            for j in range(len(p[i])):
                if len(p[i]) <= 3: continue
                q = p[:i] + [p[i][:j] + p[i][j + 1:]] + p[i + 1:]
                na, nb = (q, b) if which == 0 else (a, q)
                if fails(na, nb): a, b, changed = na, nb, True; break
            if changed: break
        if changed: break
        for i in range(len(p)):                       # move a vertex one step toward the origin
            for j in range(len(p[i])):
                for dx, dy in ((step, 0), (0, step)):
                    x, y = p[i][j]
                    nx = x - dx if x > 0 else x + dx if x < 0 else x
                    ny = y - dy if y > 0 else y + dy if y < 0 else y
                    if dx == 0: nx = x
                    if dy == 0: ny = y
                    if (nx, ny) == (x, y): continue
                    q = p[:i] + [p[i][:j] + [(nx, ny)] + p[i][j + 1:]] + p[i + 1:]
                    na, nb = (q, b) if which == 0 else (a, q)
                    if fails(na, nb): a, b, changed = na, nb, True; break
                if changed: break
            if changed: break
        if changed: break
c = show(kind, ft, op, a, b)
print(c); print(verdict(c))
