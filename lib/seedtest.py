#!/usr/bin/env python3
"""seedtest.py <Cxx> <seed-dir> <name>
Confirms a seeded property-breaking patch independently in a scratch worktree (applies, builds, existing tests of the touched
packages pass, demo fails with / passes without), then applies it to /repo, runs ./check <Cxx> quick, undoes it, and stores
patch.diff + demo + meta.json (with what was run and what the check said) under /verif/seeded/<name>/."""
import sys, os, json, subprocess, shutil, re, tempfile
V = os.path.dirname(os.path.dirname(os.path.abspath(__file__)))
pid, sdir, name = sys.argv[1], sys.argv[2], sys.argv[3]
ENV = dict(os.environ, GOFLAGS="-mod=mod", GOPROXY="off")
def sh(cmd, cwd, timeout=1200):
    p = subprocess.run(cmd, shell=True, cwd=cwd, env=ENV, stdout=subprocess.PIPE, stderr=subprocess.STDOUT, timeout=timeout)
    return p.returncode, p.stdout.decode("utf-8", "replace")
meta = json.load(open(os.path.join(sdir, "meta.json")))
patch = os.path.join(sdir, "patch.diff")
wt = tempfile.mkdtemp(prefix="seedchk-", dir="/tmp")
os.rmdir(wt)
res = dict(property=pid, seed=name)
try:
    rc, out = sh("git worktree add -q --detach %s HEAD" % wt, "/repo"); assert rc == 0, out
    files = re.findall(r"^\+\+\+ b/(\S+)", open(patch).read(), re.M)
    pkgs = sorted({"./" + os.path.dirname(f) + "/..." for f in files})
    demos = [f for f in os.listdir(sdir) if f not in ("patch.diff", "meta.json")]
    demo_cmd = re.sub(r"\s{2,}\(.*$", "", meta.get("demo_cmd", ""))   # some agents append a remark in parentheses
    demo_cmd = re.sub(r"\s+#.*$", "", demo_cmd)                          # ... or a shell comment
    demo_cmd = re.sub(r"^cd /tmp/seed-C\d+\s*&&\s*", "", demo_cmd)       # ... or start by entering their own worktree
    def run_demo():
        # the demo command is written relative to the worktree root with the seed under seeds/<k>/
        k = os.path.basename(os.path.normpath(sdir))
        os.makedirs(os.path.join(wt, "seeds"), exist_ok=True)
        dst = os.path.join(wt, "seeds", k)
        if os.path.exists(dst): shutil.rmtree(dst)
        shutil.copytree(sdir, dst)
        return sh(demo_cmd, wt)
    rc0, out0 = run_demo()
    def failed(rc, out):   # some demo commands end with a clean-up step, so also look at go test's own verdict
        return rc != 0 or "--- FAIL" in out or "\nFAIL" in out or "panic:" in out
    res["demo_without_patch"] = "pass" if not failed(rc0, out0) else "FAIL: " + out0[-400:]
    sh("git checkout -- . && git clean -fdq -e seeds", wt)
    rc, out = sh("git apply %s" % patch, wt); res["applies"] = rc == 0
    rc, out = sh("go build ./... && go vet ./... >/dev/null 2>&1; go build ./...", wt); res["builds"] = rc == 0
    rc, out = sh("go test -count=1 " + " ".join(pkgs), wt); res["existing_tests_pass"] = rc == 0
    if rc != 0: res["existing_tests_output"] = out[-600:]
    rc1, out1 = run_demo()
    res["demo_with_patch"] = "fails (as required)" if failed(rc1, out1) else "PASSES (seed does not manifest)"
    res["demo_output_with_patch"] = out1[-500:]
    valid = res["applies"] and res["builds"] and res["existing_tests_pass"] and not failed(rc0, out0) and failed(rc1, out1)
    res["valid_seed"] = valid
finally:
    subprocess.run("git worktree remove --force %s" % wt, shell=True, cwd="/repo")
# run the check against /repo with the patch
rc, out = sh("git status --porcelain", "/repo"); assert out.strip() == "", "/repo not clean: " + out
# the evidence file describes clean-tree runs: keep it across this run on a patched tree
evf = os.path.join(V, "evidence", pid + ".json")
ev_saved = open(evf).read() if os.path.exists(evf) else None
try:
    rc, out = sh("git apply %s" % patch, "/repo"); assert rc == 0, out
    rc, out = sh("./check %s quick" % pid, V, timeout=3000)
    res["check_exit"] = rc
    res["check_output"] = [l for l in out.splitlines() if l.startswith(("VIOLATION", "KNOWN", pid))][:8]
    res["detected"] = rc == 1 and any(l.startswith("VIOLATION property=" + pid) for l in out.splitlines())
    rp = re.findall(r"replay=(\S+)", out)
    if rp and os.path.exists(rp[0]):
        o = json.load(open(rp[0])); res["first_replay"] = dict(case=o["case"][:600], spec=o["spec"], broken=o["broken"])
finally:
    sh("git checkout -- .", "/repo")
    sh("git clean -fdq", "/repo")     # a patch may add files
    if ev_saved is not None: open(evf, "w").write(ev_saved)
dst = os.path.join(V, "seeded", name)
os.makedirs(dst, exist_ok=True)
shutil.copy(patch, os.path.join(dst, "patch.diff"))
for d in demos: shutil.copy(os.path.join(sdir, d), os.path.join(dst, d))
meta.update(dict(breaks_property=pid, validation=res, what_was_run=[
    "scratch worktree of /repo HEAD: git apply patch.diff; go build ./...; go test -count=1 " + " ".join(pkgs) + "; demo with and without the patch",
    "git -C /repo apply patch.diff; ./check %s quick; git -C /repo checkout -- ." % pid]))
json.dump(meta, open(os.path.join(dst, "meta.json"), "w"), indent=1)
print(json.dumps({k: res.get(k) for k in ("seed", "valid_seed", "detected", "check_output", "demo_with_patch", "demo_without_patch", "existing_tests_pass")}, indent=1))
