"""Per-property configuration of ./check (sizes, evidence texts). Nothing here decides a verdict."""

COMMON_TRUST = [
    "Coq 8.16.1 kernel (coqc; coqchk in the thorough tier); vm_compute used, native_compute not used",
    "no axioms: every property theorem prints 'Closed under the global context' unless listed in axioms_reported",
    "extraction to OCaml with ExtrOcamlBasic only (bool, option, unit, list, prod, sumbool, sumor mapped to OCaml natives; "
    "andb/orb inlined); Z, positive, N, nat stay Coq inductives; no Extract Constant",
    "hand-written OCaml driver (case parsing, printing, comparison; zarith only to convert numerals) and this Python driver",
    "hand-written Gallina model tied to /repo only by the correspondence check K (differential, on the generated cases and corpus)",
    "Go harness in /verif/go built from /repo's working tree (replace directive), its generators and canonicalisation",
]

PROPS = {
    "C20": dict(
        n_quick=60000, n_thorough=3000000,
        rule="cases: triples of byte strings (random tokens over a digit/letter/punctuation/non-ASCII alphabet, digit runs of 0-40 digits "
             "with 0-5 leading zeros, mutations sharing long prefixes) compared pairwise in one mode, and slices of 0-11 strings sorted; "
             "a case is non-trivial when it is a compare whose first two strings both contain digits or share a prefix, or a sort of >= 2 items; distinct = distinct case text",
        trivial_class=r"(^nodigits\+c|trivial|^bad$|^exn$)",
        trusted_base=["slices.SortFunc is not modelled: the theorem shows the sorted permutation is unique, the harness checks Go's output is one"],
        assumptions=["strings are arbitrary byte sequences (Go strings); len fits in int"],
    ),
}

# properties not (yet) claimed, with the reason; an entry is dropped automatically once the property is in PROPS
NOT_APPLICABLE = {
    "C%02d" % i: "not yet built in this development (model and correspondence harness pending); see DESIGN.md section 22"
    for i in range(1, 21)
}

MANIFEST_TEXT = {
    "C20": dict(
        level_text="Proof: antisymmetry, transitivity, 'zero only for identical strings', result range, NaturalLess agreement and "
                   "uniqueness of the sorted permutation are Coq theorems for all byte strings and both modes over an executable model of "
                   "NaturalCmp; the model is compared with txt.NaturalCmp on ~60k generated triples per quick run and the same laws are "
                   "evaluated on the implementation's own answers.",
        level_note="Trusted: Coq kernel, extraction (ExtrOcamlBasic), OCaml/Python drivers, Go harness; the model is hand-written and "
                   "tied to the code only by the correspondence check; slices.SortFunc itself is not modelled.",
        technique="Coq proof over a hand-written Gallina model + differential correspondence check against the Go code"),
}
