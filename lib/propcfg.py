"""Per-property configuration of ./check (sizes, evidence texts). Nothing here decides a verdict."""

COMMON_TRUST = [
    "Coq 8.16.1 kernel (coqc; coqchk in the thorough tier); vm_compute used, native_compute not used",
    "no axioms: every property theorem prints 'Closed under the global context' unless listed in axioms_reported",
    "extraction to OCaml with ExtrOcamlBasic only (bool, option, unit, list, prod, sumbool, sumor mapped to OCaml natives; "
    "andb/orb inlined); Z, positive, N, nat stay Coq inductives; no Extract Constant",
    "hand-written OCaml driver (case parsing, printing, comparison; zarith only to convert numerals) and this Python driver",
    "hand-written Gallina model tied to /repo only by the correspondence check K (differential, on the generated cases and corpus)",
    "Go harness in /verif/go built from /repo's working tree (replace directive), its generators and canonicalisation",
]

PROPS = {
    "C20": dict(
        n_quick=60000, n_thorough=3000000,
        rule="cases: triples of byte strings (random tokens over a digit/letter/punctuation/non-ASCII alphabet, digit runs of 0-40 digits "
             "with 0-5 leading zeros, mutations sharing long prefixes) compared pairwise in one mode, and slices of 0-11 strings sorted; "
             "a case is non-trivial when it is a compare whose first two strings both contain digits or share a prefix, or a sort of >= 2 items; distinct = distinct case text",
        trivial_class=r"(^nodigits\+c|trivial|^bad$|^exn$)",
        trusted_base=["slices.SortFunc is not modelled: the theorem shows the sorted permutation is unique, the harness checks Go's output is one"],
        assumptions=["strings are arbitrary byte sequences (Go strings); len fits in int"],
    ),
}
PROPS["C18"] = dict(
    n_quick=40000, n_thorough=2000000,
    rule="cases: (60%) pairs of rectangles + a probe point over int and over float64 restricted to dyadic values where Go's +,- are exact "
         "(empty, negative, sub-unit, equal, nested, abutting, overlapping; probe points on corners/edges); (20%) matrix pairs with entries "
         "multiples of 1/8 (exact products), translate/scale parameters, arbitrary angles (Go's sin/cos fed to the model, 1e-9 relative tolerance "
         "on the rotation entries only); (20%) polygons of 1-3 contours on a lattice (incl. rectilinear, horizontal/vertical edges, empty contours) "
         "with a query point, exact on-edge test. non-trivial = rectangle case with both operands non-empty, any matrix case, polygon with >= 3 vertices "
         "and the point on no edge; distinct = distinct case text",
    trivial_class=r"(\+empty|trivial|on-edge|^bad$|^exn$)",
    trusted_base=["xmath.Sin/Cos are inputs to the rotation law (any s,c); float64 arithmetic is compared only where it is exact (dyadic domain), "
                  "rounding of general floats is outside the theorem"],
    assumptions=["no integer overflow in int coordinates; floats finite (no NaN/Inf)", "query points of Contains lie on no edge"],
)
PROPS["C08"] = dict(
    n_quick=1600, n_thorough=200000, shards=8,
    rule="cases: histories of 1-200 BitSet operations (Set/Clear/Flip, the three range forms incl. reversed and beyond-capacity ranges, Trim, "
         "EnsureCapacity, Data, Reset, Load, Load(Data()), Copy, Clone) over indexes drawn around word boundaries and uniformly up to 70/200/700/5000; "
         "after EVERY operation: Count, State of every index below max index+130, FirstSet/LastSet, the four searches from 12 start positions, "
         "Equal against twins of different capacity. non-trivial = history of >= 3 operations; distinct = distinct case text",
    trivial_class=r"(trivial|^bad$|^exn$)",
    trusted_base=["per-bit inner loops of the range operations and countSetBits are modelled as word masks / population count (tied by K on Count after every op)"],
    assumptions=["indexes are >= 0 (negative indexes call atexit.Exit and are outside the property's quantifier)", "int is 64 bits"],
)
PROPS["C06"] = dict(
    n_quick=4000, n_thorough=400000, shards=8,
    rule="cases: histories of 1-300 Insert/Remove over key spaces of size 1,2,3,5,10,30,1000 (heavy duplication to none), ascending and "
         "descending runs, removal of absent keys, drain-to-empty-and-regrow; values are unique serials so insertion order is visible. After "
         "EVERY operation: Count, shape and colours via the public Dump(), full Traverse, ReverseTraverse with an early-stopping visitor, "
         "First, Last, and for 3 probe keys Get, TraverseStartingAt (early stop) and ReverseTraverseStartingAt; the number of compare calls of "
         "the operation. non-trivial = history of >= 3 operations; distinct = distinct case text",
    trivial_class=r"(trivial|^bad$|^exn$)",
    trusted_base=["Dump() output parsed from captured stdout gives the implementation's shape; values are ints"],
    assumptions=["the comparison function is a total preorder (sign-antisymmetric, transitive); the harness uses integer order"],
)
PROPS["C01"] = dict(
    n_quick=24000, n_thorough=2400000, shards=8, coq_dirs=["C01", "common"],
    rule="cases: operand pairs (a,b) of 128-bit words + a shift count + a bit index; words drawn from an edge set (0,1,2^k-1,2^k,2^k+1 for k in "
         "31,32,33,62,63, all-ones, sign bits), sparse, dense and uniformly-random-bit-length words; pair shapes: small divisor, divisor "
         "with a high word, division-shaped a=q*b+r, equal/neighbouring values, one-bit divisors, close leading-zero counts. Each case "
         "calls all 76 arithmetic/comparison/bit methods of Uint128 and Int128 (64-bit variants use b's low word, as uint64 and as int64). "
         "non-trivial = the unsigned division leaves the 64-bit fast path and is not by zero/one (classes div-pow2, div-le, div-by64, "
         "div-by128, div-bin); distinct = distinct case text",
    trivial_class=r"(div-by-zero|div-by-one|div-64bit|^bad$|^exn$)",
    trusted_base=["math/bits primitives (Add64, Sub64, Mul64, Len64, LeadingZeros64, TrailingZeros64, OnesCount64) are modelled by their "
                  "mathematical definitions on Z"],
    assumptions=["shift counts are >= 0 (Go uint)", "the 64-bit platform int"],
)
PROPS["C11"] = dict(
    no_shrink=True,   # steps refer to earlier values by index: dropping steps would invalidate the program
    n_quick=30000, n_thorough=1500000, shards=8,
    rule="cases: programs of 2-14 steps that create values (errs.New, plain errors, nil, typed-nil *Error, typed-nil foreign error, &Error{}), "
         "Append them (accumulator = any earlier value incl. the latest result, 0-4 arguments drawn from earlier values incl. aggregates and "
         "the accumulator itself) and Wrap/WrapTyped them; after EVERY step the rendering (Count, ordered messages of WrappedErrors, "
         "ErrorOrNil) of EVERY value built so far, pointer identity of the result, errors.Is/As reachability of plain causes, and the "
         "%s/%q/%v/%+v renderings. non-trivial = program with at least one Append; distinct = distinct case text",
    trivial_class=r"(trivial|^bad$|^exn$)",
    trusted_base=["node-level aliasing inside chains is not modelled: the public API only hands out chain heads and distinct heads never share "
                  "nodes (every argument is copied); the harness's per-step snapshot of every value is what checks that",
                  "stack-trace text (runtime.Callers) is checked by the harness only"],
    assumptions=["a nil pointer of a foreign error type is not used as a list argument (Go treats it as a non-nil error and calls its Error method)"],
)
PROPS["C17"] = dict(
    n_quick=12000, n_thorough=600000, shards=8, go_build_flags=["-race"],
    rule="cases: histories of 1-80 operations over two notifiers and six targets (three batch-capable, two panicking): Register with 1-3 names "
         "from a hierarchy with empty segments, repeated dots and look-alike prefixes (a.b vs a.bc vs ab), priorities 0-3 with ties, "
         "RegisterFromNotifier, Unregister, SetEnabled, Reset, StartBatch/EndBatch, Notify; after EVERY operation the full call log (who was "
         "called, with which name, in which order), the recovery-handler count and both batch levels. One case in 40 is a concurrent stress "
         "(6 goroutines x 300 random operations) under the race detector. non-trivial = history in which some Notify reaches a target; "
         "distinct = distinct case text",
    trivial_class=r"(trivial|^bad$|^exn$)",
    trusted_base=["sort.Slice and Go map iteration order: any order non-increasing in priority is accepted",
                  "data-race freedom is observed by Go's race detector on the stress cases (harness built with -race), not proved"],
    assumptions=["targets are comparable pointers; the recovery handler does not panic"],
)
PROPS["C07"] = dict(
    n_quick=2400, n_thorough=200000, shards=8, coq_dirs=["C07"],
    rule="cases: histories of 1-140 Insert/Remove/Reorganize/Clear on QuadTree[int] and QuadTree[float64] (dyadic values, exact arithmetic) "
         "with thresholds 0,4,5,8,64,1000; rectangles empty, sub-unit, huge, identical, abutting, overlapping, far outside the root; re-insertion "
         "of an existing node, removal of absent nodes. After EVERY operation: Size, All and all sixteen queries (point, intersects, "
         "contains-rect, contained-by-rect; Find and boolean; with and without a matcher) for 3 probe points and 3 probe rectangles (on "
         "corners/edges of stored rectangles), as sorted id multisets. non-trivial = history of >= 3 operations (class +split: more live "
         "nodes than the threshold, so nodes were split); distinct = distinct case text",
    trivial_class=r"(trivial|^bad$|^exn$)",
    trusted_base=["the tree shape is not observable: K compares query results only; the model's placement may differ from the code's",
                  "float64 arithmetic compared on exactly representable (dyadic) coordinates only"],
    assumptions=["ids identify nodes (a node's bounds do not change while it is stored)", "no integer overflow, finite floats"],
)
PROPS["C03"] = dict(
    n_quick=16000, n_thorough=1600000, shards=8, coq_dirs=["C03"],
    rule="cases: a configuration D1..D16, a type (f64 / f128) and two raw operands: edge values (0, +-1 raw, +-half, +-3/2, +-5/2 units, whole "
         "numbers, sqrt(2^63) neighbours, Max/M, Max, Min), random by bit length, for f128 also values beyond 64 bits and +-2^127; every "
         "method is called: Add Sub Mul Div Mod Abs Neg Trunc Ceil Round Min Max Inc Dec comparisons, From/As/CheckedAs for ten integer "
         "kinds, From/As for float64/float32. non-trivial = the exact products a*b and a*10^D are representable (class +fits: the exact-"
         "arithmetic oracle applies to Mul/Div/Mod too); distinct = distinct case text",
    trivial_class=r"(overflow|^bad$|^exn$)",
    trusted_base=["f128 operands are built with FromString and read back with String (exact decimal text)",
                  "float From/As are checked against the property's tolerance with exact rationals (no model of the float arithmetic)"],
    assumptions=["amd64: int is 64 bits"],
)
PROPS["C04"] = dict(
    n_quick=40000, n_thorough=3000000, shards=8, coq_dirs=["C04"],
    rule="cases over all 16 configurations and both types: (40%) a raw value (edge values, Min/Max, |integer part| = 0, whole numbers of "
         "many lengths, exact binary fractions, random) rendered by String/StringWithSign/Comma/CommaWithSign and parsed back through "
         "FromString, UnmarshalText (bare and quoted), encoding/json (bare, quoted, inside a struct and a slice) and yaml.v3; (20%) the same "
         "values through CheckedAs/As to float64/float32 next to the correctly rounded nearest float and its shortest text; (20%) plain "
         "literals with redundant zeros, signs, missing integer or fraction part, fractions of up to 40 digits; (20%) mutated/arbitrary byte "
         "strings. non-trivial = everything but junk strings; distinct = distinct case text",
    trivial_class=r"(parse-junk|^bad$|^exn$)",
    trusted_base=["strconv.FormatInt/ParseInt, big.Int String/SetString are re-implemented on digit lists (compared byte for byte on every case)",
                  "strings containing E/e take the strconv.ParseFloat detour, which is not modelled (K skipped, only 'no panic' checked)",
                  "strconv.FormatFloat 'f' -1 and big.Rat.Float64/Float32 (Go standard library) provide the nearest float and its shortest text for the CheckedAs oracle"],
    assumptions=["amd64"],
)
PROPS["C09"] = dict(
    n_quick=30000, n_thorough=2000000, shards=8, coq_dirs=["C09"],
    rule="cases: (40%) random ASTs of depth <= 5 over all 14 binary operators, the three unary operators before literals and before "
         "parenthesised expressions, calls of two functions with 0-2 arguments, redundant parentheses, printed with exactly the "
         "parentheses precedence/associativity demand and random whitespace, evaluated by an eval.Evaluator with SYMBOLIC operators so "
         "that the returned value is the parse tree, compared with the conventional tree; (30%) arbitrary strings of length 0-13 over an "
         "operator-heavy alphabet through the same symbolic evaluator; (20%) numeric ASTs on the real fixed (D4) and float64 evaluators, "
         "with calls of all fourteen standard functions (abs max min floor ceil round sqrt cbrt exp exp2 log log10 log1p if; negative and "
         "half-way arguments for the rounding ones, if() evaluating only the chosen branch), "
         "against a reference evaluation of the AST with the library's own operator functions and an independently written meaning of each function, two layouts, reused vs fresh evaluator, "
         "both divide-by-zero modes; (10%) arbitrary byte strings on the real evaluators under recover. non-trivial = printed AST or value "
         "case; distinct = distinct case text",
    trivial_class=r"(junk|rob|^bad$|^exn$)",
    trusted_base=["symbolic operators make Evaluate return the parse tree (no source hook)",
                  "the arithmetic of the fixed/float operator functions is taken from the library itself (C03 covers the fixed-point part)"],
    assumptions=["operands of generated ASTs contain no operator character and do not end in <digit>e"],
)

PROPS["C10"] = dict(
    n_quick=3000, n_thorough=300000, shards=8, coq_dirs=["C10"], no_shrink=True,
    rule="cases: (45%) intent stream -- an option table of 1-5 options over all 28 supported value types (15 scalar, 13 slice), short and/or "
         "long names (ASCII and multi-byte), defaults; 0-6 assignments each in a random valid spelling (--name=value, --name value, -n value, "
         "-nvalue, -n=value, grouped flags alone or before a valued short option) with values from per-type pools (range limits, signs, octal, "
         "all ParseBool spellings, strings such as '', '-', '--', '@x', '=x'), then no tail, '--' and 0-3 arbitrary arguments, or a positional "
         "first argument ('', '-', ...) and 0-3 arbitrary arguments; half of the vectors are split into 1-3 response files at positions where an "
         "option is looked for; the expected values and remaining arguments are computed from the intent; (20%) the same with one malformation "
         "(unknown long/short option, value for a flag, value the type rejects, missing value, help) -- expected: exit status 1; (30%) raw "
         "vectors of option-like fragments over tables of fully modelled kinds, with response files incl. recursion and missing files (model "
         "only); (5%) ill-formed tables. Each case runs in a child process; exit status 1 is the fatal path. non-trivial = intent or malformed "
         "stream; distinct = distinct case text",
    trivial_class=r"(^raw|^exn$)",
    trusted_base=["the process exit status 1 of the harness worker is taken as the fatal-exit path (atexit.Exit(1)); usage/error text is not compared",
                  "final option values are computed in the driver from the model's ordered assignment list (last wins, slices append to the default)",
                  "float and duration spellings are limited to fixed pools; integer spellings to decimal and 0-prefixed octal (no 0x/0b/0o/underscore)",
                  "response files are real files in a per-worker temporary directory, one argument per line (no newline inside an argument)"],
    assumptions=["option names as cmdline.Option.SetName/SetSingle accept them: long names of 2+ characters without '=', short names other than '-'"],
)

PROPS["C12"] = dict(
    n_quick=1500, n_thorough=150000, shards=8, coq_dirs=["C12"], go_build_flags=["-race"],
    rule="cases: (90%) histories of 1-40 operations (write 10/12, close 1/12, sync 1/12) on a fresh Rotator with MaxSize in {0,1,2,7,20,100} "
         "and MaxBackups in {-1,0,1,2,3,5}; write sizes 0, MaxSize-1, MaxSize, MaxSize+1..3, 3*MaxSize, or 1..MaxSize/2+1; each of the files "
         "log, log-1..log-MaxBackups pre-seeded with probability 1/4 (empty, one run of any size, or several runs within the limit); every "
         "write consists of bytes equal to its id, and after every operation the whole directory is read back and run-length encoded; "
         "(10%) 2-8 concurrent writers of 1-12 records each (race detector on) with MaxSize a multiple of the record size and enough "
         "backups that nothing is dropped, final directory compared with the model's replay of the order found in the stream. "
         "non-trivial = a history with at least one rotation, or a concurrent case; distinct = distinct case text",
    trivial_class=r"(norot|^exn$)",
    trusted_base=["files are read back through the OS after every operation (os.ReadDir/ReadFile in a fresh temporary directory)",
                  "mutual exclusion of Write calls is the rotator's sync.Mutex: modelled as atomic operations, sampled with concurrent writers under the race detector",
                  "write/rename/remove failures of the OS (full disk, permissions) are not modelled"],
    assumptions=["write sizes are non-negative (lengths of byte slices)", "pre-existing files within the limits for the size theorem"],
)

PROPS["C16"] = dict(
    n_quick=480, n_thorough=20000, shards=8, coq_dirs=["C16"], no_shrink=True, confirm_runs=4, go_build_flags=["-race"],
    rule="cases: (11/12) real-time histories on a limiter tree (period 80 ms): 3-28 operations among Use (amounts -3..cap+4, incl. 0, cap, "
         "cap+1), New (child caps 1..30, also above the parent's), SetCap, Close (children, sometimes the root), tick (wait for the next "
         "period), always ending with a tick and the root's Close; operations are issued 10 ms after a tick and the answers of a tick are "
         "collected 5 ms after it; after every operation the answers that arrived and LastUsed/Closed/Cap(true) of every limiter are "
         "compared with the sequential model; a disagreement counts only if it repeats on two re-runs of the same case; (1/12) hot "
         "hand-shake: 5-20 rounds of Close (root, or child then root) under a ticker of 20 us-1 ms with waiting requests and two user "
         "goroutines, each step under a 500 ms deadline, race detector on. non-trivial = history with a child limiter or a tick, or a hot "
         "case; distinct = distinct case text",
    trivial_class=r"(^flat$|^bad$|^exn$)",
    trusted_base=["the controller's sync.RWMutex makes Use/New/SetCap/Close/tick bodies atomic: modelled as atomic events (hot cases sample it under the race detector)",
                  "tick instants are those of time.Ticker started in rate.New; the harness aligns to them by wall clock (10 ms / 5 ms margins, re-run on disagreement)",
                  "the hand-shake theorems are about a hand-written 72-state abstraction of Close and the ticker goroutine (mutex + unbuffered channel), tied to the code only by the hot cases"],
    assumptions=["SetCap is excluded from the capacity theorem (lowering a cap below the amount already granted breaks it by design)"],
)

PROPS["C15"] = dict(
    n_quick=640, n_thorough=40000, shards=16, coq_dirs=["C15"], no_shrink=True, confirm_runs=4, go_build_flags=["-race"],
    rule="cases: (3/4) gated histories: Workers in {1,2,3}, Depth in {-1,0,1,2,5}, 1..2*Workers+4 tasks or enough to fill workers, task "
         "channel, backlog and input channel so that Submit blocks; 1/8 of the tasks panic; 2-14 environment moves (raise the submitter's "
         "allowed mark, release a task - mostly the oldest, sometimes any, also before it started -, request Shutdown), then everything "
         "allowed and released and Shutdown; after every move the harness waits until nothing changes for 4 ms and the observation "
         "(Submit calls returned, started, finished, handler reports, Shutdown returned) is compared with the model run to quiescence; a "
         "disagreement counts only if it repeats on two re-runs; (1/4) free-running: 1-8 submitters x 1-40 tasks of 0-1 ms, Workers "
         "{1,2,3,8}, Depth {-1,0,1,2,5,100}, panics every 3rd/7th task, GOMAXPROCS {1,2,4,16}, race detector on. non-trivial = every "
         "gated or free case; distinct = distinct case text",
    trivial_class=r"(^bad$|^exn$)",
    trusted_base=["Go channels, select and goroutine scheduling are modelled as an interleaving transition system with buffered-channel semantics (a waiting receiver counts as buffer room)",
                  "quiescence is observed by polling (4 ms without change); the model's quiescent state is computed with a fixed priority among enabled goroutines",
                  "free-running cases compare only the oracle's flags (exactly once, concurrency bound, order for one worker, panics, Shutdown after all)"],
    assumptions=["Shutdown is called once, after every Submit has returned (the package documents no other use)"],
)

PROPS["C13"] = dict(
    n_quick=3000, n_thorough=300000, shards=8, coq_dirs=["C13"], go_build_flags=["-race"],
    rule="cases: (70%) tracelog histories: a handler (sync 3/4, buffered 1/4; level -4..4), 1-10 operations among WithGroup (incl. empty "
         "name), WithAttrs (0-3 attributes), sink failure on/off, and Handle of records with levels -8..100, messages with spaces, bars "
         "and tabs, stack-carrying errors, and 0-4 attributes over strings (quotes, backslashes, '=', '|'), ints, bools, time, nil, "
         "LogValuer wrappers and groups nested to depth 3 with empty keys, empty groups and empty attributes; every Write to the sink is "
         "captured separately and compared byte for byte (stack block replaced by a token); (20%) multilog over 0-4 recording children "
         "(levels, ok/fail/panic) with Handle, WithGroup, WithAttrs and a probe of the first-made handler; (10%) 2-8 goroutines x 5-60 records "
         "through derived handlers on one sink, sync or buffered (depth 1-64, slow sink), race detector on. non-trivial = record with "
         "attributes or derived handler, multilog or concurrent case; distinct = distinct case text",
    trivial_class=r"(^bad$|^exn$)",
    trusted_base=["log/slog's own processing before the handler sees a record (Record.Attrs, Value.Resolve, GroupValue dropping empty-group members) is reproduced in the driver's parser, not verified",
                  "strconv.Quote is modelled on printable ASCII only; stack traces are replaced by a token after checking that they are errs' own rendering",
                  "mutual exclusion of synchronous writers is the handler's sync.Mutex, the buffered channel is Go's: modelled as atomic steps, sampled under the race detector"],
    assumptions=["the rendering theorem is stated for attribute trees in which no group consists only of vanishing members (such a group leaves a dangling ' |': model and code agree, the flat reading does not)"],
)

PROPS["C14"] = dict(
    n_quick=480, n_thorough=40000, shards=16, coq_dirs=["C14"], no_shrink=True, confirm_runs=2,
    rule="cases, each in a child process under strace -f in a fresh directory (destination pre-seeded, absent, or a non-empty directory so "
         "that the rename fails): (10%) safe.WriteFileWithMode under RLIMIT_FSIZE in {0,1,4096,65535,65536,65537,70000,131072,200000,400000} with a "
         "writer that ignores its Write errors (write fault: short write, sticky bufio error, error only from the final Flush); "
         "(40%) safe.WriteFileWithMode (the mode-less WriteFile/Create for mode 644) with 0-4 writer calls of sizes {0,1,10,4096,50000,65535,65536,65537,70000,"
         "131072,200000}, modes {644,600,755,666,400} under umask 022, the writer failing after k calls in a third of the cases; (30%) the "
         "File API with 1-6 operations among Write, Commit, Close in any order; (20%) WriteFile with the child SIGKILLed on entering the n-th "
         "write/close/renameat/openat (strace inject). Compared: the system calls on the temporary file as strace logged them (exclusive "
         "create, write sizes, close, rename, unlink), every returned value, the destination's content and mode and leftover files. "
         "non-trivial = every case; distinct = distinct case text",
    trivial_class=r"(^bad$|^exn$)",
    trusted_base=["strace's log of the child's system calls (paths and descriptors of the temporary file in the destination's directory) is the observed trace",
                  "rename(2) replaces the destination atomically and a killed process loses no completed system call: OS facts the crash theorem relies on; power loss is outside the model",
                  "bufio.Writer is modelled as far as the sizes of its write calls go (64 KiB buffer, large writes on an empty buffer pass through)"],
    assumptions=["the temporary name differs from the destination's name (CreateTemp's 'safe' + random digits)"],
)

PROPS["C19"] = dict(
    n_quick=3000, n_thorough=300000, shards=8, coq_dirs=["C19"],
    rule="cases: tar (2/3) and zip (1/3) archives of 1-5 entries - regular files, directories, symbolic links and (tar) hard links - with "
         "names of 1-3 components over {a,b,c,lnk,x,.,..}, sometimes absolute or starting with '..', link targets inside and outside the "
         "destination, absolute (below the scratch base) and relative with '..', dangling ones, masks {777,755,700}, recorded modes "
         "{644,600,755,640,700,750}; the destination pre-seeded with 0-2 directories, files or symbolic links; extracted into <base>/dst next "
         "to <base>/outside/secret with the working directory <base>/cwd; the whole tree under base is read back without following links "
         "(types, permission bits, payloads, link targets, inode sharing) and compared with the symbolic file system of the model. "
         "non-trivial = archive with a symbolic or hard link or a pre-seeded link; distinct = distinct case text",
    trivial_class=r"(^bad$|^exn$|^tar/|^zip/)",
    trusted_base=["the kernel's path resolution (symbolic links followed in directory position, O_CREAT through a dangling final link, link(2) not following) is modelled by [walk] and compared on every case, not verified",
                  "archive/tar and archive/zip deliver the entries as written by the harness",
                  "the modelled world is the scratch base directory: link targets that climb above it are not generated"],
    assumptions=["the destination directory exists and is not itself reached through a symbolic link inside the modelled world",
                 "no file below the destination shares an inode with a file outside it before extraction"],
)

PROPS["C02"] = dict(
    n_quick=20000, n_thorough=2000000, shards=8, coq_dirs=["C02", "C01", "C03", "C04"],
    rule="cases: (40%) values hi:lo with each word from {0, 2^64-1, 2^63, 2^63-1, 0..2, 2^64-1-(0..2), random >> 0..63}: String and "
         "AsBigInt of both types, round trips through FromString / NoCheck / BigInt / Text / encoding/json (struct and slice) / YAML hooks / "
         "fmt.Sscan, ten fmt verbs against math/big, AsFloat64 as an exact integer, all narrowing predicates and conversions; (20%) "
         "big.Int of 0-4 words both signs and 2^{63,64,127,128,129,192,256}+-2; (20%) text: decimal integers up to 2^198 with signs and "
         "leading zeros, the type bounds +-1, a malformed stream, and the other spellings math/big accepts (0x, 0b, 0o, _, e-notation); "
         "(20%) float64 bit patterns: 2^{0,52,53,63,64,65,127,128,129} and both neighbours, +-0, NaN, +-Inf, subnormal, fractions, random "
         "53-bit significands with exponents -60..82, both signs. non-trivial = every case except malformed text; distinct = distinct case text",
    trivial_class=r"(^bad$|^exn$)",
    trusted_base=["math/big (SetString, String, Format, Bits), strconv and encoding/json are Go's; the harness compares the library's renderings with math/big's own",
                  "float64(uint64) is modelled as round-to-nearest-even on integers (round53) and float decoding as (sign, 53-bit significand, exponent): tied by the comparison of exact integer values on every case",
                  "text in the other spellings math/big accepts (base prefixes, underscores, exponent notation) is outside the model: only the oracle applies to it"],
    assumptions=["64-bit big.Word (the 32-bit branches of FromBigInt are dead on this platform and not modelled)"],
)

PROPS["C05"] = dict(
    n_quick=4000, n_thorough=400000, shards=8, coq_dirs=["C05"], level="translation_validation",
    rule="cases: a fixed corpus of degenerate pairs (identical, abutting, touching at a vertex, nested, empty operands, zero-area contour), then "
         "(3/4) rectilinear pairs: each operand 1-3 contours (rectangles in both orientations, staircases of 6-10 vertices, a hole inside a big "
         "rectangle), integer vertices in [-4,14], float32 and float64, all four operations; the result must be rectilinear with integer "
         "vertices and be accepted by the extracted validator (one centre per unit cell of the joint bounding box extended by one cell); "
         "(1/4) general position: 1-2 contours of 3-6 vertices on the 1/8 grid (self-crossing allowed); the extracted exact membership "
         "function is evaluated at up to 120 points on the 1/64 grid that keep a margin of 0.02 from every edge of A, B and the result. "
         "non-trivial = every case; distinct = distinct case text",
    trivial_class=r"(^bad$|^exn$)",
    trusted_base=["no model of the Vatti/GPC sweep (xmath/geom/poly): each result is validated after the fact; for rectilinear integer inputs by a validator whose soundness is a Coq theorem, for general position by sampling with the extracted exact oracle (a test)",
                  "float vertices are exact dyadic rationals: the driver scales them to integers before calling the extracted functions",
                  "the margin (0.02) and the sample points of the general-position stream are the driver's; points nearer to an edge are not examined"],
    assumptions=["even-odd fill rule; points on an edge follow the half-open crossing rule in the validator (the property itself excludes them)"],
)

# properties not (yet) claimed, with the reason; an entry is dropped automatically once the property is in PROPS
NOT_APPLICABLE = {
    "C%02d" % i: "not yet built in this development (model and correspondence harness pending); see DESIGN.md section 22"
    for i in range(1, 21)
}

MANIFEST_TEXT = {
    "C05": dict(
        level_text="Translation validation with a verified validator: the sweep-line clipper is not modelled; instead every result it returns "
                   "for rectilinear integer polygons (any number of contours, holes, shared and abutting edges, both float types, all four "
                   "operations) is checked by an extracted validator, and a Coq theorem proves that acceptance implies that the result is the "
                   "pointwise Boolean combination at EVERY rational point of the plane (membership is constant on unit cells and cells "
                   "beyond the bounding box behave like bordering ones). General-position inputs are checked at margin-safe sample points "
                   "with the extracted exact even-odd oracle (a test, not a proof). No panic, operands untouched, empty region gives an "
                   "empty polygon.",
        level_note="The universally quantified statement holds per validated run and for the rectilinear integer family only; nothing is proved "
                   "about the clipper for inputs that were not run; general position is sampled.",
        technique="Coq proof of a result validator's soundness (translation validation per run) + exact extracted membership oracle"),
    "C02": dict(
        level_text="Proof: String then FromString is the identity for all 2^128 values of both types; FromBigInt returns the exact value in range "
                   "and the nearest bound otherwise, for every integer, and AsBigInt/FromBigInt round-trips; FromFloat64 of every finite double "
                   "is its truncation toward zero clamped to the type's range (no double lies strictly between 2^128-2^75 and 2^128), NaN gives "
                   "0, infinities the bounds; AsFloat64 is exactly the value, without negative zero, below 2^53, and from 2^53 on - through its three "
                   "roundings (float64 of each word, nearest-even, and the float64 sum) - has the value's sign and lies within one unit "
                   "in the last place of it (strictly less for Uint128; attained for a negative Int128, witness in Props.v); each narrowing predicate holds "
                   "exactly when its As* conversion preserves the value -- Coq theorems over C01's word model and C04's decimal printer. The "
                   "model is compared with the real types on boundary-heavy values, big.Ints, texts and float bit patterns; an exact "
                   "integer/rational oracle checks every rendering (fmt verbs, JSON, YAML hooks, Text, Scan round trips against math/big) "
                   "and the one-unit-in-the-last-place bound of AsFloat64.",
        level_note="Partial: float64(uint64) and float64 addition are modelled as round-to-nearest-even on integers (round53), tied to the hardware by K; math/big, strconv, "
                   "fmt and encoding/json are trusted as the reference renderings; the other integer spellings math/big accepts are outside the model.",
        technique="Coq proof (integer arithmetic with case analysis on the decoded double; reuse of the decimal round-trip and 128-bit word lemmas) on a hand-written Gallina model + differential correspondence check with an exact oracle"),
    "C19": dict(
        level_text="Proof: for every archive (any entries, names, link targets, order) and every initial file system with whatever symbolic links "
                   "it contains, extraction creates, re-binds or removes no path outside the destination and leaves the content and mode of "
                   "every file outside it unchanged, whether it succeeds or stops with an error (hypothesis: the destination exists and no "
                   "inode is shared across its boundary beforehand; the hypothesis is re-established for the next extraction); and the positive half: on a link-free tree, after a successful extraction of an archive of regular files and directories with plain names every regular-file entry not overwritten by a later one is a file with exactly its content, every directory entry is a directory and everything bound before is still bound -- Coq theorems "
                   "over a symbolic file system with physical path resolution. The model is compared with real tar and zip extraction by "
                   "reading the whole scratch tree back (types, modes, payloads, link targets, inode sharing, success flag); the oracle checks "
                   "that everything outside the destination is as before and that a reported success reproduced every entry; entries cut "
                   "short by a file-size limit must be reported.",
        level_note="Partial: the kernel's path walk and the effect of open/mkdir/symlink/link are modelled and validated by the comparison, not "
                   "verified; 'reproduces exactly the archive' is checked by the oracle for archives without links, not proved; I/O errors other "
                   "than the size limit are not injected.",
        technique="Coq proof (frame property and separation invariant by induction over entries) on a hand-written Gallina model of a symbolic file system + differential correspondence check"),
    "C14": dict(
        level_text="Proof: for every list of writer calls, every failure point of the writer and either outcome of the rename, at every prefix of "
                   "the system calls WriteFile issues (every crash point) the destination is its complete previous state or the complete new "
                   "content with mode = requested & ~umask; on success exactly the bytes written are published and no temporary file remains; "
                   "on failure of the writer or of the commit the error is returned, the destination is untouched and no temporary file "
                   "remains; the File API in any order of Write/Commit/Close never exposes anything but the old file or a renamed complete "
                   "temporary file, Close without Commit discards, calls after Commit are inert; under a file-size limit (short write, sticky bufio "
                   "error) with a writer that ignores its Write errors, WriteFile fails exactly when the data does not fit and then publishes nothing and leaves "
                   "no temporary file -- Coq theorems over a system-call-level "
                   "model (bufio's write sizes included). The model's call list is compared with strace's log of the real run, together "
                   "with returned values and the resulting directory; children are SIGKILLed at injected system calls; write faults are produced with RLIMIT_FSIZE.",
        level_note="Partial: atomicity of rename(2) and durability across power loss are OS behaviour outside the model; crash points are "
                   "system-call boundaries; of the OS write errors only the file-size limit is injected.",
        technique="Coq proof (prefix-closed reasoning over system-call lists; byte conservation of the buffered writer) on a hand-written Gallina model + strace-based differential correspondence check"),
    "C13": dict(
        level_text="Proof: the line rendered for a record is the level tag, timestamp and message followed by every leaf attribute of the "
                   "derivation chain and of the record exactly once, in order, prefixed by the groups in force, empty groups and the empty "
                   "attribute omitted (refinement of the renderer's state machine to a declarative flattening, any nesting); WithGroup / "
                   "WithAttrs never change the parent's list; in buffered mode, under any interleaving of Handle and delivery, the sink's "
                   "writes are an in-order subsequence of whole handled records and the queue never exceeds its depth; multilog hands the "
                   "record exactly once to each enabled child and returns nil exactly when all of them succeeded -- Coq theorems. The "
                   "model is compared byte for byte with every Write of the real handlers; concurrent logging is sampled under -race.",
        level_note="Partial: atomicity of concurrent Handle calls (sync.Mutex / channel) is trusted and sampled; slog's pre-processing and "
                   "strconv.Quote beyond printable ASCII are modelled, not verified; errs' stack-trace text is compared with errs' own output.",
        technique="Coq proof (refinement of a rendering state machine to a declarative spec; list lemmas for delivery and fan-out) on a hand-written Gallina model + differential correspondence check"),
    "C15": dict(
        level_text="Proof: over every schedule of the interleaving model (any Workers >= 1, any Depth incl. 0 and negative, any input-channel "
                   "capacity, any number of submitters): the multiset of tasks spread over programs, input channel, dispatcher's hand, "
                   "backlog, task channel, running workers and finished list is conserved; received = processed + in flight; the dispatcher "
                   "never indexes an empty backlog; once Shutdown has returned every submitted task has finished exactly once and nothing is "
                   "left anywhere; never more than Workers tasks run; tasks start in the order they entered the input channel (submission "
                   "order for one worker); LIVENESS: a reachable state in which no goroutine can move is the idle queue with every accepted task finished, or the state "
                   "in which Shutdown has returned (no deadlock: the blocking hand-off always follows a completion receive, so the three buffers are never all "
                   "full); every goroutine move decreases a measure, hence Shutdown returns under every schedule, fair or not, once the tasks end "
                   "-- Coq theorems. The model, run to quiescence after each environment move, is compared with the "
                   "real queue under gated tasks (which Submit calls returned, which tasks started/finished/were reported, whether "
                   "Shutdown returned); free-running runs are checked by an oracle over event stamps under the race detector.",
        level_note="Partial: the Go scheduler and channel runtime are modelled, not verified; that a running task ends is the caller's "
                   "business (a hypothesis of the liveness theorems); the recovery handler is modelled as a per-task report.",
        technique="Coq proof (invariants of an interleaving transition system by induction over schedules) on a hand-written Gallina model + quiescence-based differential correspondence check"),
    "C16": dict(
        level_text="Proof: in every reachable state of the limiter tree (any history of Use/New/Close/tick without SetCap) 0 <= used <= max(0, "
                   "capacity) for every limiter; a grant adds its amount to the limiter and to each ancestor and to nothing else (so a child's "
                   "consumption counts against every cap on its path); a tick answers or keeps every waiting request (none twice, none lost); "
                   "closed limiters stay closed, Close marks its limiter, the root's Close fails every pending request; and for the Close / "
                   "ticker hand-shake as now coded no schedule reaches a stuck state and completion always remains possible (72-state system "
                   "enumerated by the kernel; the pre-repair order has a reachable deadlock, kept as a refutation lemma); LastUsed: the kids lists form a tree in every reachable state, the ticker's reset rewrites exactly "
                   "the subtree (each node once) and reaches every attached limiter, so at every tick LastUsed of every limiter becomes the amount "
                   "charged to it (own and descendants' grants) in the period that ended. Coq theorems. The "
                   "sequential model is compared with the real limiter driven in real time; Close under a continuously firing ticker is "
                   "sampled with deadlines.",
        level_note="Partial: atomicity of the operations rests on the RWMutex (trusted, sampled under -race); wall-clock behaviour of time.Ticker "
                   "cannot be exhibited by the model; the per-period sums are also re-computed by the driver's oracle on the "
                   "implementation's answers.",
        technique="Coq proof (state-machine invariant by induction over histories; finite-state enumeration lifted to all schedules) on a hand-written Gallina model + real-time differential correspondence check"),
    "C12": dict(
        level_text="Proof: for every history of writes (any sizes, also above MaxSize), closes, syncs and implicit re-opens, every configuration "
                   "and every pre-existing directory: each Write returns after at most one rotation having appended its bytes whole to the "
                   "current file; the retained files read oldest-first are a suffix of (pre-existing stream ++ everything written) run by run; "
                   "an operation drops at most the oldest file and nothing while that slot is empty; no file beyond MaxBackups appears and a "
                   "file exceeds MaxSize only if it is one single write; Close/Sync change no file -- Coq theorems over a file-map model. The "
                   "model is compared with the real Rotator by reading the whole directory back after every operation; concurrent writers "
                   "are sampled under the race detector and checked for whole, unduplicated, per-writer-ordered records.",
        level_note="Trusted: Coq kernel, extraction, drivers, harness; atomicity of Write under concurrency rests on sync.Mutex (sampled, not "
                   "proved); OS-level I/O errors are not modelled.",
        technique="Coq proof (file-map algebra, invariant and suffix refinement by induction over histories) on a hand-written Gallina model + differential correspondence check"),
    "C10": dict(
        level_text="Proof: for every accepted option table, every list of assignments in any of the seven valid spellings (grouped flags included), "
                   "any split of it into distinct response files and any positional tail, Parse performs exactly the denoted assignments in order "
                   "and returns exactly the positional arguments; splitting into response files does not change the result; every malformed "
                   "continuation after a valid prefix (unknown option, value for a flag, rejected value in each spelling, missing value), a "
                   "re-used or missing response file, a help request and a rejected table take the fatal path -- Coq theorems over the model of "
                   "the three-state scanner, unbounded in table size, vector length and string contents. The model is compared with the real "
                   "Parse (child process per case; exit status observed) on generated tables and vectors, and the implementation's results with "
                   "the outcome computed from the generator's intent.",
        level_note="Trusted: Coq kernel, extraction, drivers, harness; typed value parsing (strconv, time.ParseDuration) is modelled by "
                   "validity predicates over sampled spellings; usage text, SetDefault/usage rendering and sub-commands are not modelled.",
        technique="Coq proof (induction over spelled assignments and file segments against a state-machine model) on a hand-written Gallina model + differential correspondence check"),
    "C09": dict(
        level_text="Proof: (1) for every input byte string and every operator/function table the byte-level model of the parser and of the "
                   "evaluation of the tree it builds never reaches a Go panic (no unchecked pop, no missing operator applied) and, when no operator "
                   "symbol is empty (the standard table), never exhausts the fuel of any loop: the scan position strictly increases within "
                   "the input and every reduction pops an operator, i.e. Evaluate terminates on every input; (2) at token "
                   "level, for every well-formed expression the two-stack reduction yields exactly the conventional tree: precedence, left "
                   "associativity, a unary operator binding its operand only -- Coq theorems. The byte-level model is compared with the real "
                   "evaluator (symbolic operators, so the value is the parse tree) on printed ASTs and arbitrary strings; values of the real "
                   "fixed/float evaluators are compared with a reference evaluation using the library's own operators; whitespace, reuse "
                   "and divide-by-zero modes are sampled.",
        level_note="Trusted: Coq kernel, extraction, drivers, harness; termination is proved for the model (the harness watchdog observes "
                   "the real code); the byte-to-token simulation is not proved (tied by K); float/fixed operator arithmetic is the library's.",
        technique="Coq proof (invariant over the parser's state machine; token-level refinement) on a hand-written Gallina model + differential correspondence check"),
    "C04": dict(
        level_text="Proof: for every configuration (1..16 places) and every value of f64.Int (int64 with wrap-around) and f128.Int (big.Int "
                   "parsing, saturation), FromString applied to String(), StringWithSign(), Comma(), CommaWithSign() and the quoted JSON text "
                   "returns exactly the value; Comma only adds separators to String(); decimal printing/parsing of every integer below 10^45 "
                   "are inverse; Unquote undoes quoting; FromString of any plain decimal literal (optional sign, optional integer part, optional "
                   "fraction of any length) is that number truncated toward zero to D places (saturated for f128; for f64 whenever it is an "
                   "int64); the numeral parsers accept only an optional sign plus a non-empty digit run (stray bytes and empty numerals rejected, int64 range enforced) for all byte strings -- Coq theorems over the byte-level model of String/FromString/CommaFromStringNum/Unquote. "
                   "No panic on arbitrary bytes, overflowing f64 literals and CheckedAs to floats are decided per "
                   "run: byte-exact correspondence of the model with the real functions and an exact-rational oracle on the implementation's "
                   "own outputs.",
        level_note="Trusted: Coq kernel, extraction, drivers, harness; model hand-written and tied by correspondence; the exponent detour and the float formatting of the standard "
                   "library are not modelled.",
        technique="Coq proof (digit-list induction) on a hand-written Gallina model + differential correspondence check with exact-rational oracle"),
    "C03": dict(
        level_text="Proof (f64): Add/Sub exact; Mul and Div = exact result truncated toward zero; Mod = a - b*trunc(a/b); Trunc toward zero, "
                   "Ceil toward +infinity, Round to nearest with halves away from zero; Abs/Min/Max/Inc/Dec; From(v) = v*10^D and "
                   "As/CheckedAs(From v) = v for every integer kind -- Coq theorems for every multiplier 10..10^16 and all operands whose "
                   "exact results are representable, over a model with explicit int64 wrap. f128: the same laws (Add/Sub, Mul, Div incl. "
                   "divide-by-zero, Trunc, Mod, Ceil, Round, Min/Max/Inc/Dec) are Coq theorems over the Int128 model, resting on the C01 "
                   "theorems for Int128 Add/Sub/Mul/Neg/comparisons and division; f128 integer From is exact for every machine integer, As is the quotient toward zero narrowed to the "
                   "requested kind for every value, As(From v) = v; Fraction.Normalize/Value (both types) give numerator/denominator truncated toward zero "
                   "(0 for a zero denominator). Float conversions are decided per run: "
                   "correspondence for every method in all 16 configurations and an exact big-integer/rational oracle on the implementation's answers.",
        level_note="Trusted: Coq kernel, extraction, drivers, harness; model hand-written, tied by correspondence on sampled operands; "
                   "float conversions are only tolerance-checked.",
        technique="Coq proof (lia/nia with truncated division) on a hand-written Gallina model + differential correspondence check"),
    "C07": dict(
        level_text="Proof: for every history of Insert/Remove/Reorganize/Clear, every threshold and rational coordinates (all ints and finite "
                   "floats), the stored multiset and Size equal the list specification, the invariant 'every stored node is Contains-inside the "
                   "rectangle of every tree node above it' holds, and under it each of the sixteen queries returns exactly (as a multiset) what "
                   "a linear scan with the geom predicate returns, boolean queries being true iff that scan is non-empty -- Coq theorems built "
                   "on the C18 rectangle theorems, independent of tree shape and halving. The model is compared with the real QuadTree on int "
                   "and exact float64 histories after every operation, and a separately coded linear scan is applied to the implementation's answers; "
                   "histories over non-dyadic floats (tenths), where x+w rounds, are judged by a linear scan with the library's own predicates inside the "
                   "harness (this stream exposed a Remove defect, repaired by fe366f4).",
        level_note="Trusted: Coq kernel, extraction, drivers, harness; model hand-written, tied by correspondence on sampled histories "
                   "(query results only; shape unobservable); float rounding outside the dyadic domain not covered.",
        technique="Coq proof (invariant + refinement by induction over histories, pruning lemmas from C18) on a hand-written Gallina model + differential correspondence check"),
    "C17": dict(
        level_text="Proof: for every history over two notifiers of Register, RegisterFromNotifier (both directions), Unregister, SetEnabled, "
                   "Reset, StartBatch/EndBatch and Notify, each Notify delivers exactly what a registration relation subjected to the same "
                   "operations prescribes: nobody while disabled or for an empty name, otherwise every target registered for the name or a "
                   "dot-ancestor (never a textual prefix) exactly once, with the priority of the most specific matching name (refinement "
                   "theorem; the three maps stay mutually consistent as invariants: the by-target map lists every name of a target, names "
                   "are unique in the by-name map); Unregister/Reset remove, the merge is a priority-overriding union; k nested "
                   "StartBatch/EndBatch pairs send BatchMode(true) once on the outermost start and BatchMode(false) once on the matching "
                   "end to the same targets; the delivery itself (targets sorted by non-increasing priority, each called inside a recovering "
                   "wrapper) calls every registered target exactly once in non-increasing priority order whichever targets panic, the "
                   "recovery handler hearing of exactly the panicking ones once each -- Coq theorems over an executable three-map model. "
                   "Go's sort.Slice (order among equal priorities) and concurrency are decided per run: correspondence on call sequences "
                   "(the priority sequence must be the model's), a registration-set oracle on the implementation's call log, the race detector.",
        level_note="Trusted: Coq kernel, extraction, drivers, harness, Go race detector; model hand-written, tied by correspondence on sampled "
                   "histories; the sort is modelled as an insertion sort (ties in any order accepted from Go's unstable sort).",
        technique="Coq proof on a hand-written Gallina model + differential correspondence check (+ race detector for the concurrency clause)"),
    "C11": dict(
        level_text="Proof: in the store model of errs, Append(acc, args) yields exactly items(acc) ++ items(args...) in order (aggregates "
                   "flattened), is nil exactly when that list is empty, returns a non-empty *Error accumulator itself, leaves every other "
                   "head unchanged (frame), repeated Appends concatenate; Wrap/WrapTyped give nil for nil and typed nil, return an *Error "
                   "unchanged and otherwise a fresh error carrying the cause -- Coq theorems for all stores and argument lists; and for EVERY history of "
                   "operations (self-appends included) every value refers to an existing head, heads are never discarded and every node recording a "
                   "cause shows that cause's message (invariant by induction over histories). The model is "
                   "compared with the real package after every step of generated programs, with the content of every value snapshotted.",
        level_note="Trusted: Coq kernel, extraction, drivers, harness; chains are lists per head (node aliasing not modelled, checked by snapshots); "
                   "stack trace text is harness-checked only.",
        technique="Coq proof (fold invariant with frame condition) on a hand-written Gallina model + differential correspondence check"),
    "C01": dict(
        level_text="Proof: Add/Sub/Mul/Inc/Dec and the 64-bit variants equal arithmetic mod 2^128; Cmp and all 11+10 predicates equal the order on "
                   "the values; And/Or/Xor/AndNot/Not (+64 variants), Bit, SetBit, BitLen, LeadingZeros, TrailingZeros, OnesCount equal the "
                   "binary representation; LeftShift/RightShift equal *2^n mod 2^128 and /2^n for every n >= 0; Int128 Add/Sub/Mul/Inc/Dec/"
                   "Add64/Sub64/Mul64/Neg/Abs/AbsUint128/Sign/Cmp/predicates equal two's-complement arithmetic -- Coq theorems for all "
                   "well-formed operands over an executable transcription of both files. Division: Div/Mod/DivMod, the 64-bit forms and the "
                   "signed forms return the exact quotient (toward zero) and remainder (sign of the dividend; MinInt128/-1 wraps) for every "
                   "dividend and non-zero divisor, divide-by-zero is reported -- proved through all five algorithms (divmod128by64 with the "
                   "two-digit estimate loop, estimate-and-correct 128/128, shift-and-subtract, power-of-two shortcut, dispatch). "
                   "Each run also checks correspondence and an exact big-integer oracle on the implementation's answers.",
        level_note="Trusted: Coq kernel, extraction, drivers, harness; model hand-written, tied by correspondence on sampled operand pairs "
                   "(all division paths reached, class histogram in the evidence).",
        technique="Coq proof (lia/nia over Z with explicit mod 2^64 wrap, bit extensionality) on a hand-written Gallina model + differential correspondence check"),
    "C06": dict(
        level_text="Proof: for every history of Insert/Remove and every total preorder, the model tree (zipper transcription of the CLRS "
                   "fix-ups as written) never gets stuck, its in-order sequence equals the stably ordered multimap spec, and the red-black "
                   "invariants + black root + key order hold after every operation; Traverse/ReverseTraverse/TraverseStartingAt/"
                   "ReverseTraverseStartingAt/Get/First/Last/Count equal their list specifications incl. early stop; height and the number of "
                   "comparisons are <= 2*log2(n+1)(+1). The model reproduces the implementation's exact shape and colours (Dump) after every "
                   "operation of every sampled history; the spec list, an extracted red-black checker and the comparison bound are also "
                   "evaluated on the implementation's own observations.",
        level_note="Trusted: Coq kernel, extraction, drivers, harness; model hand-written, tied by correspondence (shape-exact) on sampled histories.",
        technique="Coq proof (refinement + invariant by induction over histories) on a hand-written Gallina model + differential correspondence check"),
    "C08": dict(
        level_text="Proof: for every history of Set/Clear/Flip (single and range forms, ranges in either order, inside one word, across any "
                   "number of words, beyond the capacity), Load, Copy/Clone, Trim, EnsureCapacity, Data and Reset with non-negative indexes, "
                   "State(i) equals membership in a mathematical set subjected to the same operations (refinement theorem over srun), the "
                   "words stay 64-bit and Count equals the cardinality; First/Last/Next/PreviousSet and Next/PreviousClear return the extreme "
                   "matching index or the documented -1/sentinel for every start; Data/Trim/EnsureCapacity/Clone never change the set, "
                   "Load(Data()) reproduces set and count, Data is canonical, Equal is true exactly when the members coincide -- Coq theorems "
                   "for all states, indexes and histories. Each run also checks correspondence of the model with the real BitSet after every "
                   "operation and a reference set on the implementation's own observations.",
        level_note="Trusted: Coq kernel, extraction, drivers, harness; model hand-written (per-bit inner loops written as word masks, "
                   "countSetBits as population count), tied by correspondence on sampled histories.",
        technique="Coq proof (refinement to a membership function) on a hand-written Gallina model + differential correspondence check"),
    "C18": dict(
        level_text="Proof: Contains = inclusion of a non-empty rectangle, Intersects = common point, Intersect = common points, Union = least "
                   "cover, empties, the four affine composition laws + identity, Contour.Contains = parity of the textbook crossing number off "
                   "the edges, Bounds encloses every vertex, Transform = map -- all Coq theorems over the rationals (which contain every int and "
                   "finite float64) for an executable model; the model is compared with the Go code on int and exact-dyadic float64 inputs.",
        level_note="Trusted: Coq kernel, extraction, drivers, harness; model hand-written, tied by correspondence on sampled inputs; float rounding "
                   "outside the exact dyadic domain and sin/cos themselves are not covered by a theorem.",
        technique="Coq proof (lra/nra/ring over Q) on a hand-written Gallina model + differential correspondence check"),
    "C20": dict(
        level_text="Proof: antisymmetry, transitivity, 'zero only for identical strings', result range, NaturalLess agreement and "
                   "uniqueness of the sorted permutation are Coq theorems for all byte strings and both modes over an executable model of "
                   "NaturalCmp; the model is compared with txt.NaturalCmp on ~60k generated triples per quick run and the same laws are "
                   "evaluated on the implementation's own answers.",
        level_note="Trusted: Coq kernel, extraction (ExtrOcamlBasic), OCaml/Python drivers, Go harness; the model is hand-written and "
                   "tied to the code only by the correspondence check; slices.SortFunc itself is not modelled.",
        technique="Coq proof over a hand-written Gallina model + differential correspondence check against the Go code"),
}
