"""Per-property configuration of ./check (sizes, evidence texts). Nothing here decides a verdict."""

COMMON_TRUST = [
    "Coq 8.16.1 kernel (coqc; coqchk in the thorough tier); vm_compute used, native_compute not used",
    "no axioms: every property theorem prints 'Closed under the global context' unless listed in axioms_reported",
    "extraction to OCaml with ExtrOcamlBasic only (bool, option, unit, list, prod, sumbool, sumor mapped to OCaml natives; "
    "andb/orb inlined); Z, positive, N, nat stay Coq inductives; no Extract Constant",
    "hand-written OCaml driver (case parsing, printing, comparison; zarith only to convert numerals) and this Python driver",
    "hand-written Gallina model tied to /repo only by the correspondence check K (differential, on the generated cases and corpus)",
    "Go harness in /verif/go built from /repo's working tree (replace directive), its generators and canonicalisation",
]

PROPS = {
    "C20": dict(
        n_quick=60000, n_thorough=3000000,
        rule="cases: triples of byte strings (random tokens over a digit/letter/punctuation/non-ASCII alphabet, digit runs of 0-40 digits "
             "with 0-5 leading zeros, mutations sharing long prefixes) compared pairwise in one mode, and slices of 0-11 strings sorted; "
             "a case is non-trivial when it is a compare whose first two strings both contain digits or share a prefix, or a sort of >= 2 items; distinct = distinct case text",
        trivial_class=r"(^nodigits\+c|trivial|^bad$|^exn$)",
        trusted_base=["slices.SortFunc is not modelled: the theorem shows the sorted permutation is unique, the harness checks Go's output is one"],
        assumptions=["strings are arbitrary byte sequences (Go strings); len fits in int"],
    ),
}
PROPS["C18"] = dict(
    n_quick=40000, n_thorough=2000000,
    rule="cases: (60%) pairs of rectangles + a probe point over int and over float64 restricted to dyadic values where Go's +,- are exact "
         "(empty, negative, sub-unit, equal, nested, abutting, overlapping; probe points on corners/edges); (20%) matrix pairs with entries "
         "multiples of 1/8 (exact products), translate/scale parameters, arbitrary angles (Go's sin/cos fed to the model, 1e-9 relative tolerance "
         "on the rotation entries only); (20%) polygons of 1-3 contours on a lattice (incl. rectilinear, horizontal/vertical edges, empty contours) "
         "with a query point, exact on-edge test. non-trivial = rectangle case with both operands non-empty, any matrix case, polygon with >= 3 vertices "
         "and the point on no edge; distinct = distinct case text",
    trivial_class=r"(\+empty|trivial|on-edge|^bad$|^exn$)",
    trusted_base=["xmath.Sin/Cos are inputs to the rotation law (any s,c); float64 arithmetic is compared only where it is exact (dyadic domain), "
                  "rounding of general floats is outside the theorem"],
    assumptions=["no integer overflow in int coordinates; floats finite (no NaN/Inf)", "query points of Contains lie on no edge"],
)

# properties not (yet) claimed, with the reason; an entry is dropped automatically once the property is in PROPS
NOT_APPLICABLE = {
    "C%02d" % i: "not yet built in this development (model and correspondence harness pending); see DESIGN.md section 22"
    for i in range(1, 21)
}

MANIFEST_TEXT = {
    "C18": dict(
        level_text="Proof: Contains = inclusion of a non-empty rectangle, Intersects = common point, Intersect = common points, Union = least "
                   "cover, empties, the four affine composition laws + identity, Contour.Contains = parity of the textbook crossing number off "
                   "the edges, Bounds encloses every vertex, Transform = map -- all Coq theorems over the rationals (which contain every int and "
                   "finite float64) for an executable model; the model is compared with the Go code on int and exact-dyadic float64 inputs.",
        level_note="Trusted: Coq kernel, extraction, drivers, harness; model hand-written, tied by correspondence on sampled inputs; float rounding "
                   "outside the exact dyadic domain and sin/cos themselves are not covered by a theorem.",
        technique="Coq proof (lra/nra/ring over Q) on a hand-written Gallina model + differential correspondence check"),
    "C20": dict(
        level_text="Proof: antisymmetry, transitivity, 'zero only for identical strings', result range, NaturalLess agreement and "
                   "uniqueness of the sorted permutation are Coq theorems for all byte strings and both modes over an executable model of "
                   "NaturalCmp; the model is compared with txt.NaturalCmp on ~60k generated triples per quick run and the same laws are "
                   "evaluated on the implementation's own answers.",
        level_note="Trusted: Coq kernel, extraction (ExtrOcamlBasic), OCaml/Python drivers, Go harness; the model is hand-written and "
                   "tied to the code only by the correspondence check; slices.SortFunc itself is not modelled.",
        technique="Coq proof over a hand-written Gallina model + differential correspondence check against the Go code"),
}
