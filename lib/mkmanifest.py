#!/usr/bin/env python3
"""Regenerates MANIFEST.json from lib/propcfg.py (so the two never drift)."""
import json, os, sys
sys.path.insert(0, os.path.dirname(os.path.abspath(__file__)))
from propcfg import PROPS, NOT_APPLICABLE, MANIFEST_TEXT
V = os.path.dirname(os.path.dirname(os.path.abspath(__file__)))
checks = []
for pid in sorted(PROPS):
    t = MANIFEST_TEXT[pid]
    checks.append(dict(
        property_id=pid, quick_cmd="./check %s quick" % pid, thorough_cmd="./check %s thorough" % pid,
        evidence_file="evidence/%s.json" % pid, replay_cmd_template="./check %s --replay {path}" % pid, engine="coq-model+correspondence",
        level_claimed=dict(category=PROPS[pid].get("level", "proof"), text=t["level_text"], design_ref="DESIGN.md section " + pid),
        level_note=t["level_note"], technique=t["technique"]))
m = dict(
    version=1, setup_cmd="./setup.sh",
    hooks=dict(guard="verif", enable="go build -tags verif (no source hook exists; the tag is reserved)",
               baseline_off_cmd="cd /repo && go test -vet=off -count=1 -timeout 25m ./...", source_commits=[], add_only=True),
    engines=[dict(name="coq-model+correspondence", path="check", serves_properties=sorted(PROPS),
                  kind_free_text="Coq 8.16.1 theorems over hand-written executable Gallina models (coq/Cxx), re-checked by coqc on every run; "
                                 "models extracted to OCaml and compared with the real Go code on generated cases (K), the theorems' "
                                 "right-hand sides evaluated on the implementation's own answers (S)")],
    checks=checks,
    notes="See DESIGN.md. known_findings.jsonl lists open/fixed genuine defects; seeded/ holds validated property-breaking patches.",
    not_applicable=[dict(property_id=k, reason=v) for k, v in sorted(NOT_APPLICABLE.items()) if k not in PROPS])
json.dump(m, open(os.path.join(V, "MANIFEST.json"), "w"), indent=1)
print("MANIFEST.json: %d checks, %d not_applicable" % (len(checks), len(m["not_applicable"])))
