// C07 harness: histories of quadtree Insert/Remove/Reorganize/Clear over int and (exactly representable) float64 rectangles;
// after every operation Size, All and all sixteen query functions for several probe points/rectangles, as sorted id multisets.
package main

import (
	"fmt"
	"sort"
	"strings"

	"github.com/richardwilkes/toolbox/collection/quadtree"
	"github.com/richardwilkes/toolbox/xmath"
	"github.com/richardwilkes/toolbox/xmath/geom"
	"verifharness/hx"
)

type nd[T xmath.Numeric] struct {
	id int
	r  geom.Rect[T]
}

func (n *nd[T]) Bounds() geom.Rect[T] { return n.r }

type even[T xmath.Numeric] struct{}

func (even[T]) Matches(n *nd[T]) bool { return n.id%2 == 0 }

var general bool // the case being generated uses tenths (not exactly representable), kind=g

func coord(r *hx.Rand, isInt bool, span int) float64 {
	if general {
		return float64(r.Range(-span*10, span*10)) / 10
	}
	if isInt {
		return float64(r.Range(-span, span))
	}
	return float64(r.Range(-span*8, span*8)) / 8
}

func size(r *hx.Rand, isInt bool) float64 {
	switch r.Intn(10) {
	case 0:
		return float64(r.Range(-1, 0)) // empty
	case 1:
		if isInt {
			return 1
		}
		return 0.125 // below one unit
	case 2:
		return float64(r.Range(50, 400)) // huge
	default:
		if general {
			return float64(r.Range(1, 120)) / 10
		}
		if isInt {
			return float64(r.Range(1, 12))
		}
		return float64(r.Range(1, 96)) / 8
	}
}

type rc struct{ x, y, w, h float64 }

// pickRect chooses one of the stored rectangles from the PRNG alone (ids are 0..next-1; the first stored id at or after a random
// pivot, wrapping around).
func pickRect(r *hx.Rand, rects map[int]rc, next int) rc {
	if len(rects) == 0 || next == 0 {
		return rc{}
	}
	p := r.Intn(next)
	for k := 0; k < next; k++ {
		if e, ok := rects[(p+k)%next]; ok {
			return e
		}
	}
	return rc{}
}

func gen(r *hx.Rand, n int) []string {
	var out []string
	for c := 0; c < n; c++ {
		isInt := r.Bool()
		general = !isInt && r.Chance(1, 3) // a third of the float cases use tenths: x+w rounds, see runG
		th := []int{0, 4, 5, 8, 64, 1000}[r.Intn(6)]
		if general {
			th = []int{0, 4, 4, 5, 8, 64}[r.Intn(6)]
		}
		span := []int{8, 30, 100}[r.Intn(3)]
		nops := r.Range(1, 50)
		if th >= 64 && r.Chance(1, 2) {
			nops = r.Range(60, 140) // enough to pass the default threshold
		}
		var ops []string
		var live []int
		rects := map[int]rc{}
		next := 0
		var cluster *rc
		if r.Chance(1, 4) {
			// cluster-then-drain: more nodes than the threshold in one small region (so the tree node over it splits, possibly
			// several levels deep) plus a few far-away survivors, then every node of the cluster is removed again - the split
			// structure stays behind, empty - and the probes below include rectangles covering the emptied region
			th = []int{4, 5, 8}[r.Intn(3)]
			cx, cy := coord(r, isInt, span), coord(r, isInt, span)
			cw := float64(r.Range(4, 16))
			cluster = &rc{cx - 1, cy - 1, cw + 4, cw + 4}
			far := r.Range(1, 3)
			for i := 0; i < far; i++ {
				q := rc{cx + float64(r.Range(40, 90))*float64(1-2*r.Intn(2)), cy + float64(r.Range(40, 90))*float64(1-2*r.Intn(2)), float64(r.Range(1, 4)), float64(r.Range(1, 4))}
				rects[next] = q
				ops = append(ops, fmt.Sprintf("ins %d %s %s %s %s", next, hx.RatF(q.x), hx.RatF(q.y), hx.RatF(q.w), hx.RatF(q.h)))
				next++
			}
			k := th + r.Range(1, 3*th)
			var cl []int
			for i := 0; i < k; i++ {
				q := rc{cx + float64(r.Range(0, int(cw)*8))/8, cy + float64(r.Range(0, int(cw)*8))/8, float64(r.Range(1, 16)) / 8, float64(r.Range(1, 16)) / 8}
				if isInt {
					q = rc{cx + float64(r.Range(0, int(cw))), cy + float64(r.Range(0, int(cw))), float64(r.Range(1, 2)), float64(r.Range(1, 2))}
				}
				rects[next] = q
				cl = append(cl, next)
				ops = append(ops, fmt.Sprintf("ins %d %s %s %s %s", next, hx.RatF(q.x), hx.RatF(q.y), hx.RatF(q.w), hx.RatF(q.h)))
				next++
			}
			if r.Chance(1, 3) {
				ops = append(ops, "reorg")
			}
			keep := 0
			if r.Chance(1, 3) {
				keep = r.Range(1, 2)
			}
			for i := len(cl) - 1; i >= keep; i-- { // removal in a shuffled order
				j := r.Intn(i + 1)
				cl[i], cl[j] = cl[j], cl[i]
				ops = append(ops, fmt.Sprintf("rem %d", cl[i]))
			}
			live = append(live, cl[:keep]...)
			for i := 0; i < far; i++ {
				live = append(live, i)
			}
			nops = r.Range(0, 6)
		}
		for k := 0; k < nops; k++ {
			switch v := r.Intn(20); {
			case v < 13:
				var q rc
				if len(rects) > 0 && r.Chance(1, 5) { // identical or abutting to an existing rectangle
					q = pickRect(r, rects, next) // never range over the map: its order would leak into the case
					if r.Bool() {
						q.x += q.w
					}
				} else {
					q = rc{coord(r, isInt, span), coord(r, isInt, span), size(r, isInt), size(r, isInt)}
				}
				id := next
				next++
				if len(live) > 0 && r.Chance(1, 12) { // insert an existing node again
					id = live[r.Intn(len(live))]
					q = rects[id]
				}
				rects[id] = q
				live = append(live, id)
				ops = append(ops, fmt.Sprintf("ins %d %s %s %s %s", id, hx.RatF(q.x), hx.RatF(q.y), hx.RatF(q.w), hx.RatF(q.h)))
			case v < 17:
				id := next + 5 // absent
				if len(live) > 0 && r.Chance(5, 6) {
					i := r.Intn(len(live))
					id = live[i]
					live = append(live[:i], live[i+1:]...)
				}
				ops = append(ops, fmt.Sprintf("rem %d", id))
			case v < 19:
				ops = append(ops, "reorg")
			default:
				if r.Chance(1, 3) {
					ops = append(ops, "clear")
					live = nil
				} else {
					ops = append(ops, "reorg")
				}
			}
		}
		var pts, prs []string
		for i := 0; i < 3; i++ {
			pts = append(pts, hx.RatF(coord(r, isInt, span))+":"+hx.RatF(coord(r, isInt, span)))
			prs = append(prs, hx.RatF(coord(r, isInt, span))+":"+hx.RatF(coord(r, isInt, span))+":"+hx.RatF(size(r, isInt)*2)+":"+hx.RatF(size(r, isInt)*2))
		}
		for _, e := range []rc{pickRect(r, rects, next)} { // probes on the corner of a stored rectangle
			if len(rects) == 0 {
				break
			}
			pts[0] = hx.RatF(e.x) + ":" + hx.RatF(e.y)
			pts[1] = hx.RatF(e.x+e.w) + ":" + hx.RatF(e.y+e.h)
			prs[0] = hx.RatF(e.x) + ":" + hx.RatF(e.y) + ":" + hx.RatF(e.w) + ":" + hx.RatF(e.h)
			break
		}
		// a probe rectangle covering everything ever stored, and (cluster cases) one covering exactly the emptied region
		big := float64(span + 600)
		prs = append(prs, hx.RatF(-big)+":"+hx.RatF(-big)+":"+hx.RatF(2*big)+":"+hx.RatF(2*big))
		if cluster != nil {
			prs[1] = hx.RatF(cluster.x) + ":" + hx.RatF(cluster.y) + ":" + hx.RatF(cluster.w) + ":" + hx.RatF(cluster.h)
			prs[2] = hx.RatF(cluster.x-float64(r.Range(0, 30))) + ":" + hx.RatF(cluster.y-float64(r.Range(0, 30))) + ":" + hx.RatF(cluster.w+float64(r.Range(30, 60))) + ":" + hx.RatF(cluster.h+float64(r.Range(30, 60)))
			hw, hh := cluster.w/2, cluster.h/2
			if isInt { // whole numbers only: T(p) would truncate a fraction
				hw, hh = float64(int(hw)), float64(int(hh))
			}
			pts[2] = hx.RatF(cluster.x+hw) + ":" + hx.RatF(cluster.y+hh)
		}
		k := "f"
		if isInt {
			k = "i"
		}
		if general {
			k = "g"
			general = false
		}
		out = append(out, fmt.Sprintf("kind=%s th=%d pts=%s rects=%s |%s", k, th, strings.Join(pts, ","), strings.Join(prs, ","), strings.Join(ops, ";")))
	}
	return out
}

func ids[T xmath.Numeric](l []*nd[T]) string {
	v := make([]int, len(l))
	for i, n := range l {
		v[i] = n.id
	}
	sort.Ints(v)
	if len(v) == 0 {
		return "."
	}
	s := make([]string, len(v))
	for i, x := range v {
		s[i] = fmt.Sprint(x)
	}
	return strings.Join(s, ",")
}

func runT[T xmath.Numeric](th int, pts [][2]float64, prs [][4]float64, body string) string {
	q := &quadtree.QuadTree[T, *nd[T]]{Threshold: th}
	nodes := map[int]*nd[T]{}
	var done []string
	m := even[T]{}
	for _, o := range strings.Split(body, ";") {
		f := strings.Fields(o)
		if len(f) == 0 {
			continue
		}
		switch f[0] {
		case "ins":
			id := hx.Atoi(f[1])
			n, ok := nodes[id]
			if !ok {
				n = &nd[T]{id: id, r: geom.NewRect(T(hx.ParseRat(f[2])), T(hx.ParseRat(f[3])), T(hx.ParseRat(f[4])), T(hx.ParseRat(f[5])))}
				nodes[id] = n
			}
			q.Insert(n)
		case "rem":
			id := hx.Atoi(f[1])
			n, ok := nodes[id]
			if !ok {
				n = &nd[T]{id: id, r: geom.NewRect[T](0, 0, 1, 1)}
			}
			q.Remove(n)
		case "reorg":
			q.Reorganize()
		case "clear":
			q.Clear()
		default:
			return "BADCASE"
		}
		var sb strings.Builder
		fmt.Fprintf(&sb, "n=%d all=%s", q.Size(), ids(q.All()))
		for _, p := range pts {
			pt := geom.NewPoint(T(p[0]), T(p[1]))
			fmt.Fprintf(&sb, " P:%s:%s:%s:%s", ids(q.FindContainsPoint(pt)), hx.B2i(q.ContainsPoint(pt)),
				ids(q.FindMatchedContainsPoint(m, pt)), hx.B2i(q.MatchedContainsPoint(m, pt)))
		}
		for _, p := range prs {
			rc := geom.NewRect(T(p[0]), T(p[1]), T(p[2]), T(p[3]))
			fmt.Fprintf(&sb, " I:%s:%s:%s:%s", ids(q.FindIntersects(rc)), hx.B2i(q.Intersects(rc)), ids(q.FindMatchedIntersects(m, rc)), hx.B2i(q.MatchedIntersects(m, rc)))
			fmt.Fprintf(&sb, " C:%s:%s:%s:%s", ids(q.FindContainsRect(rc)), hx.B2i(q.ContainsRect(rc)), ids(q.FindMatchedContainsRect(m, rc)), hx.B2i(q.MatchedContainsRect(m, rc)))
			fmt.Fprintf(&sb, " W:%s:%s:%s:%s", ids(q.FindContainedByRect(rc)), hx.B2i(q.ContainedByRect(rc)), ids(q.FindMatchedContainedByRect(m, rc)), hx.B2i(q.MatchedContainedByRect(m, rc)))
		}
		done = append(done, sb.String())
	}
	return strings.Join(done, " / ")
}

// runG: general (non-dyadic) float64 coordinates, where x+w rounds. The exact model does not apply; instead every query of the
// tree is compared right here with a linear scan of the live nodes using the same geom predicates (which is what the property
// says the answer is). Observation per operation: "ok" or "MISMATCH:<query>".
func runG(th int, pts [][2]float64, prs [][4]float64, body string) string {
	q := &quadtree.QuadTree[float64, *nd[float64]]{Threshold: th}
	nodes := map[int]*nd[float64]{}
	var live []*nd[float64]
	var done []string
	m := even[float64]{}
	same := func(got []*nd[float64], want []*nd[float64]) bool { return ids(got) == ids(want) }
	for _, o := range strings.Split(body, ";") {
		f := strings.Fields(o)
		if len(f) == 0 {
			continue
		}
		switch f[0] {
		case "ins":
			id := hx.Atoi(f[1])
			n, ok := nodes[id]
			if !ok {
				n = &nd[float64]{id: id, r: geom.NewRect(hx.ParseRat(f[2]), hx.ParseRat(f[3]), hx.ParseRat(f[4]), hx.ParseRat(f[5]))}
				nodes[id] = n
			}
			q.Insert(n)
			if !n.r.Empty() {
				live = append(live, n)
			}
		case "rem":
			id := hx.Atoi(f[1])
			n, ok := nodes[id]
			if !ok {
				n = &nd[float64]{id: id, r: geom.NewRect[float64](0, 0, 1, 1)}
			}
			q.Remove(n)
			for i, l := range live {
				if l == n {
					live = append(live[:i:i], live[i+1:]...)
					break
				}
			}
		case "reorg":
			q.Reorganize()
		case "clear":
			q.Clear()
			live = nil
		default:
			return "BADCASE"
		}
		scan := func(pred func(r geom.Rect[float64]) bool, onlyEven bool) []*nd[float64] {
			var out []*nd[float64]
			for _, l := range live {
				if pred(l.r) && (!onlyEven || l.id%2 == 0) {
					out = append(out, l)
				}
			}
			return out
		}
		bad := ""
		note := func(name string, okk bool) {
			if !okk && bad == "" {
				bad = name
			}
		}
		note("size", q.Size() == len(live))
		note("all", same(q.All(), live))
		for _, p := range pts {
			pt := geom.NewPoint(p[0], p[1])
			in := func(r geom.Rect[float64]) bool { return pt.In(r) }
			note("point", same(q.FindContainsPoint(pt), scan(in, false)) && q.ContainsPoint(pt) == (len(scan(in, false)) > 0) &&
				same(q.FindMatchedContainsPoint(m, pt), scan(in, true)) && q.MatchedContainsPoint(m, pt) == (len(scan(in, true)) > 0))
		}
		for _, p := range prs {
			rc := geom.NewRect(p[0], p[1], p[2], p[3])
			for name, pr := range map[string]func(r geom.Rect[float64]) bool{
				"intersects":   func(r geom.Rect[float64]) bool { return r.Intersects(rc) },
				"contains":     func(r geom.Rect[float64]) bool { return r.Contains(rc) },
				"contained-by": func(r geom.Rect[float64]) bool { return rc.Contains(r) },
			} {
				var fa, fm []*nd[float64]
				var ba, bm bool
				switch name {
				case "intersects":
					fa, ba, fm, bm = q.FindIntersects(rc), q.Intersects(rc), q.FindMatchedIntersects(m, rc), q.MatchedIntersects(m, rc)
				case "contains":
					fa, ba, fm, bm = q.FindContainsRect(rc), q.ContainsRect(rc), q.FindMatchedContainsRect(m, rc), q.MatchedContainsRect(m, rc)
				default:
					fa, ba, fm, bm = q.FindContainedByRect(rc), q.ContainedByRect(rc), q.FindMatchedContainedByRect(m, rc), q.MatchedContainedByRect(m, rc)
				}
				note(name, same(fa, scan(pr, false)) && ba == (len(scan(pr, false)) > 0) && same(fm, scan(pr, true)) && bm == (len(scan(pr, true)) > 0))
			}
		}
		if bad == "" {
			done = append(done, "ok")
		} else {
			done = append(done, "MISMATCH:"+bad)
		}
	}
	return strings.Join(done, " / ")
}

func run(c string) (obs string) {
	defer func() {
		if e := recover(); e != nil {
			obs = "PANIC"
		}
	}()
	hdr, body, _ := strings.Cut(c, "|")
	kind, th := "i", 0
	var pts [][2]float64
	var prs [][4]float64
	for _, f := range strings.Fields(hdr) {
		if v, ok := strings.CutPrefix(f, "kind="); ok {
			kind = v
		}
		if v, ok := strings.CutPrefix(f, "th="); ok {
			th = hx.Atoi(v)
		}
		if v, ok := strings.CutPrefix(f, "pts="); ok {
			for _, p := range strings.Split(v, ",") {
				xy := strings.Split(p, ":")
				pts = append(pts, [2]float64{hx.ParseRat(xy[0]), hx.ParseRat(xy[1])})
			}
		}
		if v, ok := strings.CutPrefix(f, "rects="); ok {
			for _, p := range strings.Split(v, ",") {
				a := strings.Split(p, ":")
				prs = append(prs, [4]float64{hx.ParseRat(a[0]), hx.ParseRat(a[1]), hx.ParseRat(a[2]), hx.ParseRat(a[3])})
			}
		}
	}
	if kind == "i" {
		return runT[int](th, pts, prs, body)
	}
	if kind == "g" {
		return runG(th, pts, prs, body)
	}
	return runT[float64](th, pts, prs, body)
}

func main() { hx.Main(gen, run) }
