// C12 harness: rotation.Rotator on histories of writes, closes and syncs over pre-seeded directories, and concurrent writers.
//
// A sequential case is "cfg <maxSize> <maxBackups>;pre <index> <id>*<n>.<id>*<n>;w <id> <size>;c;s;..." - write <id> consists of
// <size> bytes of value <id>, so every file read back is rendered as its run-length encoding. After every operation the
// whole directory is read: "n=<returned n>,e=<0|1>|<index>=<runs>,<index>=<runs>,..." (files by index, 0 = the log path);
// anything else in the directory is listed as ?name. A concurrent case is "cfg <maxSize> <maxBackups>;par <writers> <records> <size>":
// the writers run in goroutines, the observation is the final directory.
package main

import (
	"fmt"
	"os"
	"path/filepath"
	"sort"
	"strconv"
	"strings"
	"sync"

	"github.com/richardwilkes/toolbox/log/rotation"
	"verifharness/hx"
)

func rle(b []byte) string {
	var parts []string
	for i := 0; i < len(b); {
		j := i
		for j < len(b) && b[j] == b[i] {
			j++
		}
		parts = append(parts, fmt.Sprintf("%d*%d", b[i], j-i))
		i = j
	}
	return strings.Join(parts, ".")
}

func unrle(s string) []byte {
	var out []byte
	if s == "" {
		return out
	}
	for _, p := range strings.Split(s, ".") {
		q := strings.Split(p, "*")
		for n := hx.Atoi(q[1]); n > 0; n-- {
			out = append(out, byte(hx.Atoi(q[0])))
		}
	}
	return out
}

func listing(dir string) string {
	ents, err := os.ReadDir(dir)
	if os.IsNotExist(err) {
		return "" // nothing written yet: the rotator creates the directory with the first write
	}
	if err != nil {
		return "READDIR-ERROR"
	}
	type fe struct {
		idx int
		s   string
	}
	var files []fe
	var odd []string
	for _, e := range ents {
		name := e.Name()
		idx := -1
		switch {
		case name == "log":
			idx = 0
		case strings.HasPrefix(name, "log-"):
			if n, err2 := strconv.Atoi(name[4:]); err2 == nil && n > 0 && strconv.Itoa(n) == name[4:] {
				idx = n
			}
		}
		if idx < 0 || !e.Type().IsRegular() {
			odd = append(odd, "?"+name)
			continue
		}
		b, err2 := os.ReadFile(filepath.Join(dir, name))
		if err2 != nil {
			odd = append(odd, "?unreadable:"+name)
			continue
		}
		files = append(files, fe{idx, fmt.Sprintf("%d=%s", idx, rle(b))})
	}
	sort.Slice(files, func(i, j int) bool { return files[i].idx < files[j].idx })
	var parts []string
	for _, f := range files {
		parts = append(parts, f.s)
	}
	sort.Strings(odd)
	return strings.Join(append(parts, odd...), ",")
}

func run(c string) (obs string) {
	defer func() {
		if e := recover(); e != nil {
			obs = "P"
		}
	}()
	dir, err := os.MkdirTemp("", "verif-c12-")
	if err != nil {
		return "HARNESS-ERROR"
	}
	defer os.RemoveAll(dir)
	dir = filepath.Join(dir, "logs", "sub") // the rotator creates missing directories
	ops := strings.Split(c, ";")
	var r *rotation.Rotator
	var out []string
	mk := func(maxSize int64, maxBackups int) {
		r, err = rotation.New(rotation.Path(filepath.Join(dir, "log")), rotation.MaxSize(maxSize), rotation.MaxBackups(maxBackups))
	}
	for _, o := range ops {
		f := strings.Fields(o)
		if len(f) == 0 {
			continue
		}
		switch f[0] {
		case "cfg":
			mk(int64(hx.Atoi(f[1])), hx.Atoi(f[2]))
			if err != nil {
				return "NEW-ERROR"
			}
		case "pre":
			if err = os.MkdirAll(dir, 0o755); err != nil {
				return "HARNESS-ERROR"
			}
			name := "log"
			if f[1] != "0" {
				name = "log-" + f[1]
			}
			body := ""
			if len(f) > 2 {
				body = f[2]
			}
			if err = os.WriteFile(filepath.Join(dir, name), unrle(body), 0o644); err != nil {
				return "HARNESS-ERROR"
			}
		case "w":
			if r == nil {
				return "BADCASE"
			}
			b := make([]byte, hx.Atoi(f[2]))
			for i := range b {
				b[i] = byte(hx.Atoi(f[1]))
			}
			n, werr := r.Write(b)
			out = append(out, fmt.Sprintf("n=%d,e=%s|%s", n, hx.B2i(werr != nil), listing(dir)))
		case "c":
			cerr := r.Close()
			out = append(out, fmt.Sprintf("n=0,e=%s|%s", hx.B2i(cerr != nil), listing(dir)))
		case "s":
			serr := r.Sync()
			out = append(out, fmt.Sprintf("n=0,e=%s|%s", hx.B2i(serr != nil), listing(dir)))
		case "par":
			writers, records, size := hx.Atoi(f[1]), hx.Atoi(f[2]), hx.Atoi(f[3])
			var wg sync.WaitGroup
			bad := make([]bool, writers)
			for w := 0; w < writers; w++ {
				wg.Add(1)
				go func(w int) {
					defer wg.Done()
					for j := 0; j < records; j++ {
						b := make([]byte, size)
						for i := range b {
							b[i] = byte(w*records + j + 1)
						}
						if n, werr := r.Write(b); n != size || werr != nil {
							bad[w] = true
						}
					}
				}(w)
			}
			wg.Wait()
			e := "0"
			for _, x := range bad {
				if x {
					e = "1"
				}
			}
			out = append(out, fmt.Sprintf("n=0,e=%s|%s", e, listing(dir)))
		default:
			return "BADCASE"
		}
	}
	if r != nil {
		_ = r.Close()
	}
	return strings.Join(out, " / ")
}

func gen(r *hx.Rand, n int) []string {
	var out []string
	for i := 0; i < n; i++ {
		maxSize := []int{0, 1, 2, 7, 20, 20, 100, 100}[r.Intn(8)]
		maxBackups := []int{-1, 0, 1, 1, 2, 3, 5}[r.Intn(7)]
		if i%10 == 9 { // concurrent writers; sized so that nothing is rotated out: the stream then shows the order the writes took effect
			writers, records := r.Range(2, 8), r.Range(1, 12)
			size := []int{1, 2, 5, 10}[r.Intn(4)]
			perFile := r.Range(1, 6)
			nfiles := (writers*records + perFile - 1) / perFile
			out = append(out, fmt.Sprintf("cfg %d %d;par %d %d %d", perFile*size, nfiles+r.Intn(2), writers, records, size))
			continue
		}
		ops := []string{fmt.Sprintf("cfg %d %d", maxSize, maxBackups)}
		nb := maxBackups
		if nb < 0 {
			nb = 0
		}
		preID := 201
		for k := 0; k <= nb; k++ {
			if !r.Chance(1, 4) {
				continue
			}
			var body string
			switch r.Intn(4) {
			case 0: // empty file
			case 1: // one run of any size, possibly larger than the limit
				body = fmt.Sprintf("%d*%d", preID, r.Range(1, maxSize+5))
				preID++
			default: // several runs within the limit
				left := maxSize
				var runs []string
				for left > 0 && len(runs) < 3 {
					s := r.Range(1, left)
					runs = append(runs, fmt.Sprintf("%d*%d", preID, s))
					preID++
					left -= s
					if r.Bool() {
						break
					}
				}
				body = strings.Join(runs, ".")
			}
			ops = append(ops, strings.TrimSpace(fmt.Sprintf("pre %d %s", k, body)))
		}
		id := 1
		for nOps := r.Range(1, 40); nOps > 0; nOps-- {
			switch r.Intn(12) {
			case 0:
				ops = append(ops, "c")
			case 1:
				ops = append(ops, "s")
			default:
				var sz int
				switch r.Intn(9) {
				case 0:
					sz = 0
				case 1:
					sz = maxSize
				case 2:
					sz = maxSize - 1
				case 3:
					sz = maxSize + 1 + r.Intn(3)
				case 4:
					sz = 3 * maxSize
				default:
					sz = r.Range(1, maxSize/2+1)
				}
				if sz < 0 {
					sz = 0
				}
				ops = append(ops, fmt.Sprintf("w %d %d", id, sz))
				id++
			}
		}
		out = append(out, strings.Join(ops, ";"))
	}
	return out
}

func main() { hx.Main(gen, run) }
