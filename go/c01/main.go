// C01 harness: every arithmetic, comparison and bit method of num.Uint128 / num.Int128 on generated operand pairs.
package main

import (
	"fmt"
	"strings"

	"github.com/richardwilkes/toolbox/xmath/num"
	"verifharness/hx"
)

var edge64 []uint64

func init() {
	edge64 = []uint64{0, 1, 2, 3, 0xFFFFFFFF, 0x100000000, 0x100000001, 0x7FFFFFFF, 0x80000000, 0x80000001}
	for _, k := range []uint{31, 32, 33, 62, 63} {
		edge64 = append(edge64, (uint64(1)<<k)-1, uint64(1)<<k, (uint64(1)<<k)+1)
	}
	edge64 = append(edge64, ^uint64(0), ^uint64(0)-1, 0x8000000000000000, 0x7FFFFFFFFFFFFFFF, 0x8000000000000001, 0xFFFFFFFF00000000, 0x00000000FFFFFFFF)
}

func word(r *hx.Rand) uint64 {
	switch r.Intn(6) {
	case 0:
		return edge64[r.Intn(len(edge64))]
	case 1:
		return 0
	case 2: // sparse
		return (uint64(1) << uint(r.Intn(64))) | (uint64(1) << uint(r.Intn(64)))
	case 3: // dense
		return ^((uint64(1) << uint(r.Intn(64))) | (uint64(1) << uint(r.Intn(64))))
	default:
		return r.BitLen64()
	}
}

func mulU(a, b [2]uint64) [2]uint64 {
	p := num.Uint128FromComponents(a[0], a[1]).Mul(num.Uint128FromComponents(b[0], b[1]))
	h, l := p.Components()
	return [2]uint64{h, l}
}

func gen(r *hx.Rand, n int) []string {
	out := make([]string, 0, n)
	for i := 0; i < n; i++ {
		a := [2]uint64{word(r), word(r)}
		b := [2]uint64{word(r), word(r)}
		switch r.Intn(10) {
		case 8, 9: // exact multiples (or a tiny remainder) of a divisor wider than 32 bits: the quotient-digit corrections of the 128/64 kernel
			b[0] = 0
			if r.Chance(1, 4) {
				b[0] = r.BitLen64() >> uint(r.Intn(64))
			}
			b[1] = r.U64() >> uint(r.Intn(31))
			if r.Chance(1, 3) {
				b[1] |= 0xFFFFFFFF // low half all ones: large vn0 makes the estimate overshoot
			}
			if b[1] == 0 {
				b[1] = 0x100000001
			}
			q := [2]uint64{0, r.U64() >> uint(r.Intn(40))}
			if r.Chance(1, 3) {
				q[1] |= 0xFFFFFFFF
			}
			p := mulU(q, b)
			s := num.Uint128FromComponents(p[0], p[1]).Add64(uint64(r.Intn(3)))
			a[0], a[1] = s.Components()
		case 0: // small divisor, wide dividend
			b[0] = 0
		case 1: // divisor with a high word, dividend just above / far above
			if b[0] == 0 {
				b[0] = r.BitLen64() | 1
			}
		case 2: // division-shaped: a = q*b + rem (mod 2^128) with a small quotient
			q := [2]uint64{0, r.BitLen64() >> uint(r.Intn(64))}
			p := mulU(q, b)
			s := num.Uint128FromComponents(p[0], p[1]).Add64(r.BitLen64() >> uint(r.Intn(64)))
			a[0], a[1] = s.Components()
		case 3: // equal or neighbouring values
			a = b
			if r.Bool() {
				a[1] += uint64(r.Range(-2, 2))
			}
		case 4: // one-bit divisors
			b = [2]uint64{0, 0}
			k := r.Intn(128)
			if k >= 64 {
				b[0] = 1 << uint(k-64)
			} else {
				b[1] = 1 << uint(k)
			}
		case 5: // close leading-zero counts (binary shift-subtract path) with a high word in the divisor
			sh := uint(r.Intn(17))
			x := num.Uint128FromComponents(a[0]|1<<40, a[1])
			y := x.RightShift(sh)
			b[0], b[1] = y.Components()
			if r.Bool() {
				b[1] ^= r.BitLen64()
			}
		}
		// most random pairs have a < b (quotient 0): swap two times in three so that the division kernels are exercised
		if (a[0] < b[0] || (a[0] == b[0] && a[1] < b[1])) && r.Chance(2, 3) {
			a, b = b, a
		}
		shift := r.Intn(140)
		if r.Chance(1, 4) {
			shift = []int{0, 1, 31, 32, 33, 63, 64, 65, 95, 96, 127, 128, 129, 200, 1 << 20}[r.Intn(15)]
		}
		bit := r.Range(-3, 131)
		if r.Chance(1, 10) {
			bit = []int{-1 << 40, 1 << 40, 127, 128, 63, 64, 0}[r.Intn(7)]
		}
		out = append(out, fmt.Sprintf("%x %x %x %x %d %d", a[0], a[1], b[0], b[1], shift, bit))
	}
	return out
}

func u(x num.Uint128) string { h, l := x.Components(); return fmt.Sprintf("%x:%x", h, l) }
func s(x num.Int128) string  { h, l := x.Components(); return fmt.Sprintf("%x:%x", h, l) }

type rec struct{ sb *strings.Builder }

// do runs f, which returns the rendered result, and records "name=result" or "name=PANIC(...)".
func (r rec) do(name string, f func() string) {
	var res string
	func() {
		defer func() {
			if e := recover(); e != nil {
				msg := fmt.Sprint(e)
				if strings.Contains(msg, "divide by zero") || strings.Contains(msg, "division by zero") {
					res = "PANIC(div0)"
				} else {
					res = "PANIC(other)"
				}
			}
		}()
		res = f()
	}()
	r.sb.WriteString(name)
	r.sb.WriteByte('=')
	r.sb.WriteString(res)
	r.sb.WriteByte(' ')
}

func run(c string) string {
	var a0, a1, b0, b1 uint64
	var shift, bit int
	if _, err := fmt.Sscanf(c, "%x %x %x %x %d %d", &a0, &a1, &b0, &b1, &shift, &bit); err != nil {
		return "BADCASE"
	}
	A, B := num.Uint128FromComponents(a0, a1), num.Uint128FromComponents(b0, b1)
	IA, IB := num.Int128FromComponents(a0, a1), num.Int128FromComponents(b0, b1)
	n := b1
	sn := int64(b1)
	var sb strings.Builder
	r := rec{&sb}
	bs := hx.B2i
	it := func(i int) string { return fmt.Sprint(i) }
	// Uint128 x Uint128
	r.do("Add", func() string { return u(A.Add(B)) })
	r.do("Sub", func() string { return u(A.Sub(B)) })
	r.do("Mul", func() string { return u(A.Mul(B)) })
	r.do("Div", func() string { return u(A.Div(B)) })
	r.do("Mod", func() string { return u(A.Mod(B)) })
	r.do("DivMod", func() string { q, m := A.DivMod(B); return u(q) + "," + u(m) })
	r.do("Cmp", func() string { return it(A.Cmp(B)) })
	r.do("GT", func() string { return bs(A.GreaterThan(B)) })
	r.do("GE", func() string { return bs(A.GreaterThanOrEqual(B)) })
	r.do("EQ", func() string { return bs(A.Equal(B)) })
	r.do("LT", func() string { return bs(A.LessThan(B)) })
	r.do("LE", func() string { return bs(A.LessThanOrEqual(B)) })
	r.do("And", func() string { return u(A.And(B)) })
	r.do("Or", func() string { return u(A.Or(B)) })
	r.do("Xor", func() string { return u(A.Xor(B)) })
	r.do("AndNot", func() string { return u(A.AndNot(B)) })
	r.do("AndNot64", func() string { return u(A.AndNot64(B)) })
	// Uint128 x uint64
	r.do("Add64", func() string { return u(A.Add64(n)) })
	r.do("Sub64", func() string { return u(A.Sub64(n)) })
	r.do("Mul64", func() string { return u(A.Mul64(n)) })
	r.do("Div64", func() string { return u(A.Div64(n)) })
	r.do("Mod64", func() string { return u(A.Mod64(n)) })
	r.do("DivMod64", func() string { q, m := A.DivMod64(n); return u(q) + "," + u(m) })
	r.do("Cmp64", func() string { return it(A.Cmp64(n)) })
	r.do("GT64", func() string { return bs(A.GreaterThan64(n)) })
	r.do("GE64", func() string { return bs(A.GreaterThanOrEqual64(n)) })
	r.do("EQ64", func() string { return bs(A.Equal64(n)) })
	r.do("LT64", func() string { return bs(A.LessThan64(n)) })
	r.do("LE64", func() string { return bs(A.LessThanOrEqual64(n)) })
	r.do("And64", func() string { return u(A.And64(n)) })
	r.do("Or64", func() string { return u(A.Or64(n)) })
	r.do("Xor64", func() string { return u(A.Xor64(n)) })
	// Uint128 unary, shifts, bits
	r.do("Inc", func() string { return u(A.Inc()) })
	r.do("Dec", func() string { return u(A.Dec()) })
	r.do("Not", func() string { return u(A.Not()) })
	r.do("BitLen", func() string { return it(A.BitLen()) })
	r.do("OnesCount", func() string { return it(A.OnesCount()) })
	r.do("LeadingZeros", func() string { return it(int(A.LeadingZeros())) })
	r.do("TrailingZeros", func() string { return it(int(A.TrailingZeros())) })
	r.do("IsZero", func() string { return bs(A.IsZero()) })
	r.do("LeftShift", func() string { return u(A.LeftShift(uint(shift))) })
	r.do("RightShift", func() string { return u(A.RightShift(uint(shift))) })
	r.do("Bit", func() string { return it(int(A.Bit(bit))) })
	r.do("SetBit0", func() string { return u(A.SetBit(bit, 0)) })
	r.do("SetBit1", func() string { return u(A.SetBit(bit, 1)) })
	// Int128 x Int128
	r.do("IAdd", func() string { return s(IA.Add(IB)) })
	r.do("ISub", func() string { return s(IA.Sub(IB)) })
	r.do("IMul", func() string { return s(IA.Mul(IB)) })
	r.do("IDiv", func() string { return s(IA.Div(IB)) })
	r.do("IMod", func() string { return s(IA.Mod(IB)) })
	r.do("IDivMod", func() string { q, m := IA.DivMod(IB); return s(q) + "," + s(m) })
	r.do("ICmp", func() string { return it(IA.Cmp(IB)) })
	r.do("IGT", func() string { return bs(IA.GreaterThan(IB)) })
	r.do("IGE", func() string { return bs(IA.GreaterThanOrEqual(IB)) })
	r.do("IEQ", func() string { return bs(IA.Equal(IB)) })
	r.do("ILT", func() string { return bs(IA.LessThan(IB)) })
	r.do("ILE", func() string { return bs(IA.LessThanOrEqual(IB)) })
	// Int128 x int64
	r.do("IAdd64", func() string { return s(IA.Add64(sn)) })
	r.do("ISub64", func() string { return s(IA.Sub64(sn)) })
	r.do("IMul64", func() string { return s(IA.Mul64(sn)) })
	r.do("IDiv64", func() string { return s(IA.Div64(sn)) })
	r.do("IMod64", func() string { return s(IA.Mod64(sn)) })
	r.do("IDivMod64", func() string { q, m := IA.DivMod64(sn); return s(q) + "," + s(m) })
	r.do("ICmp64", func() string { return it(IA.Cmp64(sn)) })
	r.do("IGT64", func() string { return bs(IA.GreaterThan64(sn)) })
	r.do("IGE64", func() string { return bs(IA.GreaterThanOrEqual64(sn)) })
	r.do("IEQ64", func() string { return bs(IA.Equal64(sn)) })
	r.do("ILT64", func() string { return bs(IA.LessThan64(sn)) })
	r.do("ILE64", func() string { return bs(IA.LessThanOrEqual64(sn)) })
	// Int128 unary
	r.do("IInc", func() string { return s(IA.Inc()) })
	r.do("IDec", func() string { return s(IA.Dec()) })
	r.do("INeg", func() string { return s(IA.Neg()) })
	r.do("IAbs", func() string { return s(IA.Abs()) })
	r.do("IAbsU", func() string { return u(IA.AbsUint128()) })
	r.do("ISign", func() string { return it(IA.Sign()) })
	return strings.TrimRight(sb.String(), " ")
}

func main() { hx.Main(gen, run) }
