// C15 harness: taskqueue.Queue.
//
// Gated case "cfg <workers> <depth> <total> <panicking ids or ->;allow <n>;rel <t>;shutdown;...": one submitter goroutine submits
// tasks 0..total-1 in order but only those below the allowed mark; every task records its start, then waits until it is
// released, records its end and (if listed) panics. After every operation the harness waits until nothing moves any more and
// reports "cin=<cap of the input channel>|sub=<Submit calls returned> st=<started ids> fin=<finished ids> h=<ids seen by the
// recovery handler> sd=<Shutdown returned> skip=<operation not applicable>". shutdown is only issued once every task has been
// submitted (closing the input channel under a blocked Submit is a caller error). With one worker st is in start order,
// otherwise sorted.
//
// Free-running case "free <workers> <depth> <submitters> <tasks each> <panic every> <gomaxprocs>": no gates; checks that every task
// ran exactly once, never more than <workers> at a time, in submission order for one worker, each panic reported once, and
// that Shutdown returned only after all of them.
package main

import (
	"fmt"
	"runtime"
	"sort"
	"strings"
	"sync"
	"sync/atomic"
	"time"

	"github.com/richardwilkes/toolbox/taskqueue"
	"verifharness/hx"
)

func ids(l []int, keepOrder bool) string {
	c := append([]int(nil), l...)
	if !keepOrder {
		sort.Ints(c)
	}
	p := make([]string, len(c))
	for i, v := range c {
		p[i] = fmt.Sprint(v)
	}
	return strings.Join(p, ",")
}

func runGated(ops []string) string {
	f := strings.Fields(ops[0])
	workers, depth, total := hx.Atoi(f[1]), hx.Atoi(f[2]), hx.Atoi(f[3])
	panicky := map[int]bool{}
	if f[4] != "-" {
		for _, p := range strings.Split(f[4], ",") {
			panicky[hx.Atoi(p)] = true
		}
	}
	var mu sync.Mutex
	var started, finished, handled []int
	var submitted, sdReturned int32
	gates := make([]chan struct{}, total)
	for i := range gates {
		gates[i] = make(chan struct{})
	}
	released := make([]bool, total)
	handler := func(err error) {
		var id int
		msg := err.Error()
		if pid := panickingTask(); pid >= 0 {
			id = pid
		} else if i := strings.Index(msg, "task#"); i >= 0 {
			fmt.Sscanf(msg[i:], "task#%d", &id)
		} else {
			id = -1
		}
		mu.Lock()
		handled = append(handled, id)
		mu.Unlock()
	}
	opts := []taskqueue.Option{taskqueue.Workers(workers), taskqueue.Depth(depth)}
	if len(f) < 6 || f[5] != "nohandler" { // the default is no handler: a panicking task is recovered silently
		opts = append(opts, taskqueue.RecoveryHandler(handler))
	}
	q := taskqueue.New(opts...)
	allowed := make(chan int, 64)
	go func() { // the submitter
		limit := 0
		for next := 0; next < total; next++ {
			for next >= limit {
				n, ok := <-allowed
				if !ok {
					return
				}
				if n > limit {
					limit = n
				}
			}
			id := next
			q.Submit(func() {
				mu.Lock()
				started = append(started, id)
				mu.Unlock()
				<-gates[id]
				mu.Lock()
				finished = append(finished, id)
				mu.Unlock()
				if panicky[id] {
					notePanic(id)
					panic(panicValue(id))
				}
			})
			atomic.AddInt32(&submitted, 1)
		}
	}()
	snapshot := func() string {
		mu.Lock()
		defer mu.Unlock()
		return fmt.Sprintf("sub=%d st=%s fin=%s h=%s sd=%d", atomic.LoadInt32(&submitted), ids(started, workers == 1), ids(finished, workers == 1),
			ids(handled, false), atomic.LoadInt32(&sdReturned))
	}
	settle := func() string { // nothing has moved for 4 ms (at most 300 ms)
		last, since := snapshot(), time.Now()
		deadline := time.Now().Add(300 * time.Millisecond)
		for time.Now().Before(deadline) {
			time.Sleep(500 * time.Microsecond)
			runtime.Gosched()
			if s := snapshot(); s != last {
				last, since = s, time.Now()
			} else if time.Since(since) > 4*time.Millisecond {
				break
			}
		}
		return last
	}
	cin := runtime.NumCPU() * 2
	out := []string{}
	sdCalled := false
	allowedSoFar := 0
	for _, o := range ops[1:] {
		g := strings.Fields(o)
		if len(g) == 0 {
			continue
		}
		skip := 0
		switch g[0] {
		case "allow": // one task at a time, each from a quiescent state: a burst would race the dispatcher against the workers
			for n := hx.Atoi(g[1]); allowedSoFar < n && allowedSoFar < total; {
				allowedSoFar++
				allowed <- allowedSoFar
				settle()
			}
		case "rel":
			t := hx.Atoi(g[1])
			if t >= 0 && t < total && !released[t] {
				released[t] = true
				close(gates[t])
			}
		case "shutdown":
			if sdCalled || int(atomic.LoadInt32(&submitted)) != total {
				skip = 1
			} else {
				sdCalled = true
				go func() { q.Shutdown(); atomic.StoreInt32(&sdReturned, 1) }()
			}
		default:
			return "BADCASE"
		}
		out = append(out, fmt.Sprintf("%s skip=%d", settle(), skip))
	}
	// clean up: let everything finish
	for t := range gates {
		if !released[t] {
			released[t] = true
			close(gates[t])
		}
	}
	allowed <- total
	if !sdCalled {
		deadline := time.Now().Add(2 * time.Second)
		for int(atomic.LoadInt32(&submitted)) != total && time.Now().Before(deadline) {
			time.Sleep(time.Millisecond)
		}
		if int(atomic.LoadInt32(&submitted)) == total {
			done := make(chan struct{})
			go func() { q.Shutdown(); close(done) }()
			select {
			case <-done:
			case <-time.After(2 * time.Second):
				out = append(out, "CLEANUP-SHUTDOWN-HUNG")
			}
		} else {
			out = append(out, "CLEANUP-SUBMIT-HUNG")
		}
	}
	return fmt.Sprintf("cin=%d|%s", cin, strings.Join(out, " / "))
}

func runFree(f []string) string {
	workers, depth, subs, each, panicEvery, procs := hx.Atoi(f[1]), hx.Atoi(f[2]), hx.Atoi(f[3]), hx.Atoi(f[4]), hx.Atoi(f[5]), hx.Atoi(f[6])
	defer runtime.GOMAXPROCS(runtime.GOMAXPROCS(procs))
	total := subs * each
	runs := make([]int32, total)
	var running, maxRunning, handledCount, finishedCount int32
	var mu sync.Mutex
	var order []int
	handledIDs := map[int]int{}
	handler := func(err error) {
		var id int
		msg := err.Error()
		if pid := panickingTask(); pid >= 0 {
			id = pid
		} else if i := strings.Index(msg, "task#"); i >= 0 {
			fmt.Sscanf(msg[i:], "task#%d", &id)
		}
		mu.Lock()
		handledIDs[id]++
		mu.Unlock()
		atomic.AddInt32(&handledCount, 1)
	}
	withHandler := len(f) < 8 || f[7] != "nohandler"
	opts := []taskqueue.Option{taskqueue.Workers(workers), taskqueue.Depth(depth)}
	if withHandler {
		opts = append(opts, taskqueue.RecoveryHandler(handler))
	}
	q := taskqueue.New(opts...)
	var wg sync.WaitGroup
	var seq int64
	submitSeq := make([]int64, total) // stamp taken after Submit returned
	beginSeq := make([]int64, total)  // stamp taken before Submit was called
	startSeq := make([]int64, total)
	for s := 0; s < subs; s++ {
		wg.Add(1)
		go func(s int) {
			defer wg.Done()
			r := hx.NewRand(uint64(s + 1))
			for j := 0; j < each; j++ {
				id := s*each + j
				dur := r.Intn(4)
				long := time.Duration(200+r.Intn(800)) * time.Microsecond
				atomic.StoreInt64(&beginSeq[id], atomic.AddInt64(&seq, 1))
				q.Submit(func() {
					atomic.StoreInt64(&startSeq[id], atomic.AddInt64(&seq, 1))
					n := atomic.AddInt32(&running, 1)
					for {
						m := atomic.LoadInt32(&maxRunning)
						if n <= m || atomic.CompareAndSwapInt32(&maxRunning, m, n) {
							break
						}
					}
					atomic.AddInt32(&runs[id], 1)
					mu.Lock()
					order = append(order, id)
					mu.Unlock()
					switch dur {
					case 1:
						runtime.Gosched()
					case 2:
						time.Sleep(50 * time.Microsecond)
					case 3:
						time.Sleep(long)
					}
					atomic.AddInt32(&running, -1)
					atomic.AddInt32(&finishedCount, 1)
					if panicEvery > 0 && id%panicEvery == 0 {
						notePanic(id)
						panic(panicValue(id))
					}
				})
				atomic.StoreInt64(&submitSeq[id], atomic.AddInt64(&seq, 1))
			}
		}(s)
	}
	wg.Wait()
	done := make(chan struct{})
	var finishedAtReturn int32
	go func() { q.Shutdown(); finishedAtReturn = atomic.LoadInt32(&finishedCount); close(done) }()
	select {
	case <-done:
	case <-time.After(5 * time.Second):
		return "SHUTDOWN-HUNG"
	}
	once := 1
	for _, n := range runs {
		if n != 1 {
			once = 0
		}
	}
	orderOK := 1
	if workers == 1 { // a task whose Submit returned before another's Submit began must run first
		pos := make([]int, total)
		for p, id := range order {
			pos[id] = p
		}
		for a := 0; a < total; a++ {
			for b := 0; b < total; b++ {
				if submitSeq[a] < beginSeq[b] && pos[a] > pos[b] {
					orderOK = 0
				}
			}
		}
	}
	wantHandled := 0
	handledOK := 1
	for id := 0; id < total; id++ {
		if panicEvery > 0 && id%panicEvery == 0 {
			wantHandled++
			if handledIDs[id] != 1 {
				handledOK = 0
			}
		}
	}
	if int(handledCount) != wantHandled {
		handledOK = 0
	}
	if !withHandler {
		handledOK = hx.Atoi(hx.B2i(handledCount == 0))
	}
	return fmt.Sprintf("once=%d maxok=%s order=%d handled=%d sdafter=%s", once, hx.B2i(int(maxRunning) <= workers), orderOK, handledOK,
		hx.B2i(int(finishedAtReturn) == total))
}

func run(c string) (obs string) {
	defer func() {
		if e := recover(); e != nil {
			obs = "P"
		}
	}()
	ops := strings.Split(c, ";")
	f := strings.Fields(ops[0])
	switch f[0] {
	case "cfg":
		return runGated(ops)
	case "free":
		return runFree(f)
	}
	return "BADCASE"
}

func gen(r *hx.Rand, n int) []string {
	var out []string
	cin := runtime.NumCPU() * 2
	for i := 0; i < n; i++ {
		if i%4 == 3 {
			out = append(out, fmt.Sprintf("free %d %d %d %d %d %d %s", []int{1, 1, 2, 3, 8}[r.Intn(5)], []int{-1, 0, 0, 1, 2, 5, 100}[r.Intn(7)],
				r.Range(1, 8), r.Range(1, 40), []int{0, 0, 3, 7}[r.Intn(4)], []int{1, 2, 4, 16}[r.Intn(4)], []string{"handler", "handler", "nohandler"}[r.Intn(3)]))
			continue
		}
		workers := []int{1, 1, 2, 3}[r.Intn(4)]
		depth := []int{-1, 0, 0, 1, 2, 5}[r.Intn(6)]
		// enough tasks to fill the workers, their channel, the backlog and (sometimes) the input channel, so that Submit blocks
		total := r.Range(1, 2*workers+4)
		if depth >= 0 && r.Chance(1, 2) {
			total = 2*workers + depth + cin + r.Range(0, 4)
		}
		var pan []string
		for t := 0; t < total; t++ {
			if r.Chance(1, 8) {
				pan = append(pan, fmt.Sprint(t))
			}
		}
		ps := "-"
		if len(pan) > 0 {
			ps = strings.Join(pan, ",")
		}
		ops := []string{fmt.Sprintf("cfg %d %d %d %s %s", workers, depth, total, ps, []string{"handler", "handler", "nohandler"}[r.Intn(3)])}
		allowed := 0
		var unreleased []int
		for t := 0; t < total; t++ {
			unreleased = append(unreleased, t)
		}
		for k := r.Range(2, 14); k > 0; k-- {
			switch x := r.Intn(10); {
			case x < 4 && allowed < total:
				allowed += r.Range(1, total-allowed)
				if r.Chance(1, 3) {
					allowed = total
				}
				ops = append(ops, fmt.Sprintf("allow %d", allowed))
			case x < 9 && len(unreleased) > 0:
				// mostly release in start order, sometimes any task (also one that has not started yet)
				j := 0
				if r.Chance(1, 3) {
					j = r.Intn(len(unreleased))
				}
				ops = append(ops, fmt.Sprintf("rel %d", unreleased[j]))
				unreleased = append(unreleased[:j], unreleased[j+1:]...)
			default:
				ops = append(ops, "shutdown")
			}
		}
		// finish: everything allowed, shutdown requested while tasks are still gated, then released
		ops = append(ops, fmt.Sprintf("allow %d", total))
		if r.Bool() {
			ops = append(ops, "shutdown")
		}
		for _, t := range unreleased {
			ops = append(ops, fmt.Sprintf("rel %d", t))
		}
		ops = append(ops, "shutdown")
		out = append(out, strings.Join(ops, ";"))
	}
	return out
}

// The recovery handler runs on the goroutine of the task that panicked (errs.Recovery is deferred in runTask), so a task notes
// its id under its goroutine before panicking and the handler looks it up: panic values that cannot carry the id (typed nils)
// are attributed to the right task all the same.
var (
	panicking   = map[string]int{}
	panickingMu sync.Mutex
)

func goid() string {
	b := make([]byte, 64)
	b = b[:runtime.Stack(b, false)]
	f := strings.Fields(string(b)) // "goroutine N [running]:"
	if len(f) > 1 {
		return f[1]
	}
	return "?"
}

func notePanic(id int) {
	panickingMu.Lock()
	panicking[goid()] = id
	panickingMu.Unlock()
}

func panickingTask() int {
	panickingMu.Lock()
	defer panickingMu.Unlock()
	if id, ok := panicking[goid()]; ok {
		delete(panicking, goid())
		return id
	}
	return -1
}

type taskErr struct{ id int }

func (e *taskErr) Error() string {
	if e == nil { // a typed nil is used as a panic value below; the handler calls Error on it
		return "typed-nil task error"
	}
	return fmt.Sprintf("task#%d", e.id)
}

// panicValue: what a failing task panics with - a string, an error, an int, and typed nils (a nil pointer, map or slice inside a
// non-nil interface is still a panic: the handler must hear of it)
func panicValue(id int) any {
	switch id % 6 {
	case 0:
		return fmt.Sprintf("task#%d", id)
	case 1:
		return &taskErr{id}
	case 2:
		return id
	case 3:
		var e *taskErr
		return e
	case 4:
		var m map[string]int
		return m
	default:
		var sl []int
		return sl
	}
}

func main() { hx.Main(gen, run) }
