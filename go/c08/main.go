// C08 harness: histories of xmath.BitSet operations; after every operation the set-determined observables are printed.
package main

import (
	"fmt"
	"strconv"
	"strings"

	"github.com/richardwilkes/toolbox/xmath"
	"verifharness/hx"
)

var boundary = []int{0, 1, 2, 31, 62, 63, 64, 65, 66, 126, 127, 128, 129, 130, 191, 192, 193, 255, 256, 257, 319, 320, 511, 512, 513, 640}

func idx(r *hx.Rand, hi int) int {
	switch r.Intn(4) {
	case 0:
		return boundary[r.Intn(len(boundary))]
	case 1:
		return r.Intn(hi + 1)
	case 2:
		return r.Intn(200)
	default:
		b := boundary[r.Intn(len(boundary))] + r.Range(-2, 2)
		if b < 0 {
			b = 0
		}
		return b
	}
}

func gen(r *hx.Rand, n int) []string {
	var out []string
	for c := 0; c < n; c++ {
		hi := []int{70, 200, 700, 5000}[r.Intn(4)]
		nops := r.Range(1, 40)
		if r.Chance(1, 10) {
			nops = r.Range(40, 200)
		}
		ops := make([]string, 0, nops)
		maxIdx := 0
		note := func(i int) int {
			if i > maxIdx {
				maxIdx = i
			}
			return i
		}
		for k := 0; k < nops; k++ {
			switch r.Intn(20) {
			case 0, 1, 2, 3:
				ops = append(ops, fmt.Sprintf("set %d", note(idx(r, hi))))
			case 4, 5:
				ops = append(ops, fmt.Sprintf("clear %d", note(idx(r, hi))))
			case 6, 7:
				ops = append(ops, fmt.Sprintf("flip %d", note(idx(r, hi))))
			case 8, 9, 10:
				ops = append(ops, fmt.Sprintf("setr %d %d", note(idx(r, hi)), note(idx(r, hi))))
			case 11, 12:
				a := idx(r, hi)
				b := idx(r, hi)
				if r.Chance(1, 3) {
					b = a + r.Range(0, 400) // often beyond the capacity
				}
				ops = append(ops, fmt.Sprintf("clearr %d %d", note(a), note(b)))
			case 13, 14:
				ops = append(ops, fmt.Sprintf("flipr %d %d", note(idx(r, hi)), note(idx(r, hi))))
			case 15:
				ops = append(ops, "trim")
			case 16:
				ops = append(ops, fmt.Sprintf("ensure %d", r.Intn(12)))
			case 17:
				ops = append(ops, []string{"data", "reload", "copy", "clone"}[r.Intn(4)])
			case 18:
				if r.Chance(1, 4) {
					ops = append(ops, "reset")
				} else {
					ops = append(ops, "trim")
				}
			default:
				nw := r.Intn(5)
				ws := make([]string, nw)
				for i := range ws {
					w := r.BitLen64()
					if r.Chance(1, 3) {
						w = 0
					}
					if r.Chance(1, 6) {
						w = ^uint64(0)
					}
					ws[i] = strconv.FormatUint(w, 16)
				}
				if nw*64 > maxIdx {
					maxIdx = nw * 64
				}
				l := strings.Join(ws, ",")
				if nw == 0 {
					l = "."
				}
				ops = append(ops, "load "+l)
			}
		}
		starts := []string{"0", "1", "63", "64", "65", "127", "128", strconv.Itoa(r.Intn(maxIdx + 2)), strconv.Itoa(r.Intn(maxIdx + 2)),
			strconv.Itoa(maxIdx), strconv.Itoa(maxIdx + 64), strconv.Itoa(maxIdx + 200)}
		out = append(out, fmt.Sprintf("n=%d starts=%s |%s", maxIdx+130, strings.Join(starts, ","), strings.Join(ops, ";")))
	}
	return out
}

func observe(b *xmath.BitSet, n int, starts []int) string {
	var sb strings.Builder
	fmt.Fprintf(&sb, "c=%d s=", b.Count())
	// State bitmap, 4 bits per hex digit, index 0 first
	for i := 0; i < n; i += 4 {
		v := 0
		for j := 0; j < 4; j++ {
			if i+j < n && b.State(i+j) {
				v |= 1 << j
			}
		}
		sb.WriteByte("0123456789abcdef"[v])
	}
	fmt.Fprintf(&sb, " q=%d,%d", b.FirstSet(), b.LastSet())
	for _, s := range starts {
		fmt.Fprintf(&sb, ",%d,%d,%d,%d", b.NextSet(s), b.PreviousSet(s), b.NextClear(s), b.PreviousClear(s))
	}
	// twins: same members with another capacity must be Equal; one extra/missing member must not
	var twin xmath.BitSet
	twin.EnsureCapacity((n+63)/64 + 3)
	for i := 0; i < n; i++ {
		if b.State(i) {
			twin.Set(i)
		}
	}
	e1, e2 := b.Equal(&twin), twin.Equal(b)
	twin.Flip(n / 2)
	e3, e4 := b.Equal(&twin), twin.Equal(b)
	fmt.Fprintf(&sb, " e=%s%s%s%s", hx.B2i(e1), hx.B2i(e2), hx.B2i(e3), hx.B2i(e4))
	return sb.String()
}

func run(c string) (obs string) {
	var done []string
	defer func() {
		if e := recover(); e != nil {
			obs = strings.Join(append(done, "PANIC"), " / ")
		}
	}()
	hdr, body, _ := strings.Cut(c, "|")
	var n int
	var starts []int
	for _, f := range strings.Fields(hdr) {
		if v, ok := strings.CutPrefix(f, "n="); ok {
			n = hx.Atoi(v)
		}
		if v, ok := strings.CutPrefix(f, "starts="); ok {
			for _, s := range strings.Split(v, ",") {
				starts = append(starts, hx.Atoi(s))
			}
		}
	}
	b := &xmath.BitSet{}
	for _, o := range strings.Split(body, ";") {
		f := strings.Fields(o)
		if len(f) == 0 {
			continue
		}
		extra := ""
		switch f[0] {
		case "set":
			b.Set(hx.Atoi(f[1]))
		case "clear":
			b.Clear(hx.Atoi(f[1]))
		case "flip":
			b.Flip(hx.Atoi(f[1]))
		case "setr":
			b.SetRange(hx.Atoi(f[1]), hx.Atoi(f[2]))
		case "clearr":
			b.ClearRange(hx.Atoi(f[1]), hx.Atoi(f[2]))
		case "flipr":
			b.FlipRange(hx.Atoi(f[1]), hx.Atoi(f[2]))
		case "trim":
			b.Trim()
		case "ensure":
			b.EnsureCapacity(hx.Atoi(f[1]))
		case "data":
			d := b.Data()
			ws := make([]string, len(d))
			for i, w := range d {
				ws[i] = strconv.FormatUint(w, 16)
			}
			extra = " d=" + strings.Join(ws, ",")
			if len(d) == 0 {
				extra = " d=."
			}
		case "reset":
			b.Reset()
		case "load":
			var d []uint64
			if f[1] != "." {
				for _, w := range strings.Split(f[1], ",") {
					v, err := strconv.ParseUint(w, 16, 64)
					if err != nil {
						panic(err)
					}
					d = append(d, v)
				}
			}
			keep := append([]uint64(nil), d...)
			b.Load(d)
			for i := range d {
				if d[i] != keep[i] {
					extra = " load-modified-argument"
				}
			}
		case "reload":
			nb := &xmath.BitSet{}
			nb.Load(b.Data())
			b = nb
		case "copy":
			nb := &xmath.BitSet{}
			nb.SetRange(5, 1000) // the receiver's old content, in high words too, must not survive Copy
			nb.Copy(b)
			b = nb
		case "clone":
			old := b
			b = b.Clone()
			b.Flip(7) // mutating the clone must not touch the original
			b.Flip(7)
			_ = old
		default:
			return "BADCASE"
		}
		done = append(done, observe(b, n, starts)+extra)
	}
	return strings.Join(done, " / ")
}

func main() { hx.Main(gen, run) }
