// C06 harness: histories of redblack.Tree Insert/Remove; after every operation the shape (via the public Dump), all
// traversals, Get/First/Last and the number of key comparisons of the operation are printed.
package main

import (
	"bytes"
	"fmt"
	"io"
	"os"
	"strconv"
	"strings"

	"github.com/richardwilkes/toolbox/collection/redblack"
	"verifharness/hx"
)

func gen(r *hx.Rand, n int) []string {
	var out []string
	for c := 0; c < n; c++ {
		space := []int{1, 2, 3, 5, 10, 30, 1000}[r.Intn(7)]
		nops := r.Range(1, 60)
		if r.Chance(1, 8) {
			nops = r.Range(60, 300)
		}
		mode := r.Intn(6) // 0..2 random, 3 ascending run, 4 descending run, 5 drain and regrow
		ops := make([]string, 0, nops)
		var live []int
		next := 0
		for k := 0; k < nops; k++ {
			ins := r.Chance(2, 3)
			if mode == 5 {
				phase := (k * 4) / nops
				ins = phase == 0 || phase == 2
				if r.Chance(1, 10) {
					ins = !ins
				}
			}
			if ins {
				var key int
				switch mode {
				case 3:
					key = next / 2
					next++
				case 4:
					key = 100000 - next/2
					next++
				default:
					key = r.Intn(space)
				}
				ops = append(ops, fmt.Sprintf("ins %d", key))
				live = append(live, key)
			} else {
				var key int
				if len(live) > 0 && r.Chance(4, 5) {
					i := r.Intn(len(live))
					key = live[i]
					live = append(live[:i], live[i+1:]...)
				} else {
					key = r.Intn(space + 2) // possibly absent
					for i, x := range live {
						if x == key {
							live = append(live[:i], live[i+1:]...)
							break
						}
					}
				}
				ops = append(ops, fmt.Sprintf("rem %d", key))
			}
		}
		probes := []string{strconv.Itoa(r.Intn(space + 1)), strconv.Itoa(r.Intn(space + 1)), "-1"}
		if len(live) > 0 {
			probes[2] = strconv.Itoa(live[r.Intn(len(live))])
		}
		out = append(out, fmt.Sprintf("keys=%s stop=%d |%s", strings.Join(probes, ","), r.Intn(7), strings.Join(ops, ";")))
	}
	return out
}

func captureDump(t *redblack.Tree[int, int]) string {
	old := os.Stdout
	rd, wr, err := os.Pipe()
	if err != nil {
		panic(err)
	}
	os.Stdout = wr
	ch := make(chan string)
	go func() {
		var buf bytes.Buffer
		_, _ = io.Copy(&buf, rd)
		ch <- buf.String()
	}()
	func() {
		defer func() { os.Stdout = old; wr.Close() }()
		t.Dump()
	}()
	s := <-ch
	rd.Close()
	// "<indent><b|r><side>key" per line -> depth:colour:side:key
	var parts []string
	for _, line := range strings.Split(strings.TrimRight(s, "\n"), "\n") {
		if line == "" {
			continue
		}
		depth := 0
		for strings.HasPrefix(line, "  ") {
			line = line[2:]
			depth++
		}
		col := line[:1]
		rest := line[1:]
		side := "-"
		if strings.HasPrefix(rest, "L ") {
			side, rest = "L", rest[2:]
		} else if strings.HasPrefix(rest, "R ") {
			side, rest = "R", rest[2:]
		}
		parts = append(parts, fmt.Sprintf("%d%s%s%s", depth, col, side, rest))
	}
	if len(parts) == 0 {
		return "."
	}
	return strings.Join(parts, ",")
}

func ints(v []int) string {
	if len(v) == 0 {
		return "."
	}
	s := make([]string, len(v))
	for i, x := range v {
		s[i] = strconv.Itoa(x)
	}
	return strings.Join(s, ",")
}

func run(c string) (obs string) {
	var done []string
	defer func() {
		if e := recover(); e != nil {
			obs = strings.Join(append(done, fmt.Sprintf("PANIC")), " / ")
		}
	}()
	hdr, body, _ := strings.Cut(c, "|")
	var probes []int
	stop := 0
	for _, f := range strings.Fields(hdr) {
		if v, ok := strings.CutPrefix(f, "keys="); ok {
			for _, s := range strings.Split(v, ",") {
				probes = append(probes, hx.Atoi(s))
			}
		}
		if v, ok := strings.CutPrefix(f, "stop="); ok {
			stop = hx.Atoi(v)
		}
	}
	cmps := 0
	t := redblack.New[int, int](func(a, b int) int {
		cmps++
		switch {
		case a < b:
			return -1
		case a > b:
			return 1
		}
		return 0
	})
	all := func(int, int) bool { return true }
	_ = all
	for serial, o := range strings.Split(body, ";") {
		f := strings.Fields(o)
		if len(f) == 0 {
			continue
		}
		cmps = 0
		switch f[0] {
		case "ins":
			t.Insert(hx.Atoi(f[1]), serial)
		case "rem":
			t.Remove(hx.Atoi(f[1]))
		default:
			return "BADCASE"
		}
		opCmps := cmps
		var sb strings.Builder
		fmt.Fprintf(&sb, "n=%d c=%d d=%s", t.Count(), opCmps, captureDump(t))
		var tv, rv []int
		t.Traverse(func(_, v int) bool { tv = append(tv, v); return true })
		t.ReverseTraverse(func(_, v int) bool { rv = append(rv, v); return v%7 != stop })
		fmt.Fprintf(&sb, " t=%s r=%s", ints(tv), ints(rv))
		if v, ok := t.First(); ok {
			fmt.Fprintf(&sb, " f=%d", v)
		} else {
			sb.WriteString(" f=.")
		}
		if v, ok := t.Last(); ok {
			fmt.Fprintf(&sb, " l=%d", v)
		} else {
			sb.WriteString(" l=.")
		}
		for _, k := range probes {
			g := "."
			if v, ok := t.Get(k); ok {
				g = strconv.Itoa(v)
			}
			var ge, le []int
			t.TraverseStartingAt(k, func(_, v int) bool { ge = append(ge, v); return v%7 != stop })
			t.ReverseTraverseStartingAt(k, func(_, v int) bool { le = append(le, v); return v%7 != (stop+3)%7 })
			fmt.Fprintf(&sb, " g=%s ge=%s le=%s", g, ints(ge), ints(le))
		}
		done = append(done, sb.String())
	}
	return strings.Join(done, " / ")
}

func main() { hx.Main(gen, run) }
