module verifharness

go 1.24.2

require (
	github.com/richardwilkes/toolbox v0.0.0
	golang.org/x/exp v0.0.0-20250305212735-054e65f0b394
	gopkg.in/yaml.v3 v3.0.1
)

require (
	github.com/pkg/term v1.1.0 // indirect
	golang.org/x/sys v0.32.0 // indirect
)

replace github.com/richardwilkes/toolbox => /repo
