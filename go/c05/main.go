// C05 harness: poly.Polygon Boolean operations.
//
//	rect <f32|f64> <op> <A> | <B>     rectilinear polygons with integer vertices: contours "x,y x,y ..." separated by ';'
//	gen  <f32|f64> <op> <A> | <B>     general position: vertices are multiples of 1/8
//
// op is union, intersect, sub or xor. Observation: "R=<contours> mut=<0|1> empty=<0|1>" with every coordinate of the result
// printed exactly (integers as such, other values as <numerator>/<denominator>); mut=1 if an operand was modified; "P" on panic.
package main

import (
	"fmt"
	"math/big"
	"regexp"
	"runtime"
	"strconv"
	"strings"

	"github.com/richardwilkes/toolbox/xmath/geom"
	"github.com/richardwilkes/toolbox/xmath/geom/poly"
	"golang.org/x/exp/constraints"
	"verifharness/hx"
)

func parsePoly[T constraints.Float](s string, scale float64) poly.Polygon[T] {
	var p poly.Polygon[T]
	s = strings.TrimSpace(s)
	if s == "" || s == "-" {
		return p
	}
	for _, cs := range strings.Split(s, ";") {
		var c poly.Contour[T]
		for _, v := range strings.Fields(cs) {
			xy := strings.Split(v, ",")
			x, _ := strconv.ParseFloat(xy[0], 64)
			y, _ := strconv.ParseFloat(xy[1], 64)
			c = append(c, geom.Point[T]{X: T(x / scale), Y: T(y / scale)})
		}
		p = append(p, c)
	}
	return p
}

func exact(f float64) string {
	r, _ := new(big.Float).SetFloat64(f).Rat(nil)
	if r == nil {
		return "NaN"
	}
	if r.IsInt() {
		return r.Num().String()
	}
	return r.Num().String() + "/" + r.Denom().String()
}

func show[T constraints.Float](p poly.Polygon[T]) string {
	var cs []string
	for _, c := range p {
		var vs []string
		for _, v := range c {
			vs = append(vs, exact(float64(v.X))+","+exact(float64(v.Y)))
		}
		cs = append(cs, strings.Join(vs, " "))
	}
	if len(cs) == 0 {
		return "-"
	}
	return strings.Join(cs, ";")
}

func same[T constraints.Float](a, b poly.Polygon[T]) bool {
	if len(a) != len(b) {
		return false
	}
	for i := range a {
		if len(a[i]) != len(b[i]) {
			return false
		}
		for j := range a[i] {
			if a[i][j] != b[i][j] {
				return false
			}
		}
	}
	return true
}

func runT[T constraints.Float](op, as, bs string, scale float64) string {
	a, b := parsePoly[T](as, scale), parsePoly[T](bs, scale)
	a0, b0 := a.Clone(), b.Clone()
	var r poly.Polygon[T]
	switch op {
	case "union":
		r = a.Union(b)
	case "intersect":
		r = a.Intersect(b)
	case "sub":
		r = a.Sub(b)
	case "xor":
		r = a.Xor(b)
	default:
		return "BADCASE"
	}
	return fmt.Sprintf("R=%s mut=%s empty=%s", strings.ReplaceAll(show(r), " ", "_"), hx.B2i(!same(a, a0) || !same(b, b0)), hx.B2i(r.Empty()))
}

// panicSite names where a panic was raised inside the library: the two innermost frames of package poly, as
// "receiver.method<receiver.method" (type parameters and the package path dropped). It identifies a crash by its call site.
func panicSite() string {
	pcs := make([]uintptr, 64)
	n := runtime.Callers(3, pcs)
	frames := runtime.CallersFrames(pcs[:n])
	var names []string
	for {
		fr, more := frames.Next()
		if i := strings.Index(fr.Function, "/geom/poly."); i >= 0 && len(names) < 2 {
			nm := fr.Function[i+len("/geom/poly."):]
			nm = regexp.MustCompile(`\[[^\]]*\]`).ReplaceAllString(nm, "")
			nm = strings.NewReplacer("(", "", ")", "", "*", "").Replace(nm)
			names = append(names, nm)
		}
		if !more {
			break
		}
	}
	if len(names) == 0 {
		return "P"
	}
	return "P@" + strings.Join(names, "<")
}

func run(c string) (obs string) {
	defer func() {
		if e := recover(); e != nil {
			obs = panicSite()
		}
	}()
	i := strings.Index(c, " ")
	kind := c[:i]
	rest := strings.TrimSpace(c[i:])
	f := strings.SplitN(rest, " ", 3)
	ab := strings.SplitN(f[2], "|", 2)
	scale := 1.0
	if kind == "gen" {
		scale = 8
	}
	if f[0] == "f32" {
		return runT[float32](f[1], ab[0], ab[1], scale)
	}
	return runT[float64](f[1], ab[0], ab[1], scale)
}

var opNames = []string{"union", "intersect", "sub", "xor"}

func rectContour(x0, y0, x1, y1 int, cw bool) string {
	if cw {
		return fmt.Sprintf("%d,%d %d,%d %d,%d %d,%d", x0, y0, x0, y1, x1, y1, x1, y0)
	}
	return fmt.Sprintf("%d,%d %d,%d %d,%d %d,%d", x0, y0, x1, y0, x1, y1, x0, y1)
}

// a rectilinear contour: a rectangle, or a staircase polygon with 6-10 vertices
func rectilinear(r *hx.Rand) string {
	x0, y0 := r.Range(-4, 8), r.Range(-4, 8)
	w, h := r.Range(1, 6), r.Range(1, 6)
	if r.Chance(2, 3) {
		return rectContour(x0, y0, x0+w, y0+h, r.Bool())
	}
	// staircase: up the left side, then steps down to the right
	steps := r.Range(2, 4)
	var pts []string
	pts = append(pts, fmt.Sprintf("%d,%d", x0, y0))
	top := y0 + steps
	pts = append(pts, fmt.Sprintf("%d,%d", x0, top))
	x := x0
	for s := 0; s < steps; s++ {
		x += r.Range(1, 2)
		pts = append(pts, fmt.Sprintf("%d,%d", x, top-s))
		pts = append(pts, fmt.Sprintf("%d,%d", x, top-s-1))
	}
	return strings.Join(pts, " ")
}

func genRectPoly(r *hx.Rand) string {
	n := r.Range(0, 3)
	if r.Chance(1, 15) {
		return "-"
	}
	if n == 0 {
		n = 1
	}
	var cs []string
	for i := 0; i < n; i++ {
		cs = append(cs, rectilinear(r))
	}
	if r.Chance(1, 5) { // a hole (even-odd) strictly inside a big rectangle
		cs = []string{rectContour(-3, -3, 9, 9, r.Bool()), rectContour(r.Range(-2, 2), r.Range(-2, 2), r.Range(3, 8), r.Range(3, 8), r.Bool())}
	}
	return strings.Join(cs, ";")
}

func genAnyPoly(r *hx.Rand) string {
	var cs []string
	for n := r.Range(1, 2); n > 0; n-- {
		var pts []string
		for k := r.Range(3, 6); k > 0; k-- {
			pts = append(pts, fmt.Sprintf("%d,%d", r.Range(-40, 80), r.Range(-40, 80))) // eighths
		}
		cs = append(cs, strings.Join(pts, " "))
	}
	return strings.Join(cs, ";")
}

// integer-grid polygons on a small lattice: 1-3 contours, each a rectangle, a triangle or a quadrilateral with whole-number
// vertices in [-2, 8] (printed in eighths for the "gen" kind) - coincident edges, vertices lying on edges of the other operand,
// edges crossing at lattice points and several edges ending on one scan line are the rule here, not the exception
func genGridPoly(r *hx.Rand) string {
	var cs []string
	for n := r.Range(1, 3); n > 0; n-- {
		var pts []string
		if r.Chance(1, 3) {
			x0, y0 := r.Range(-2, 6), r.Range(-2, 6)
			x1, y1 := x0+r.Range(1, 6), y0+r.Range(1, 8)
			for _, p := range [][2]int{{x0, y0}, {x1, y0}, {x1, y1}, {x0, y1}} {
				pts = append(pts, fmt.Sprintf("%d,%d", 8*p[0], 8*p[1]))
			}
		} else {
			for k := r.Range(3, 4); k > 0; k-- {
				pts = append(pts, fmt.Sprintf("%d,%d", 8*r.Range(-2, 8), 8*r.Range(-2, 8)))
			}
		}
		cs = append(cs, strings.Join(pts, " "))
	}
	return strings.Join(cs, ";")
}

var corpus = []string{
	"rect f64 union 0,0 4,0 4,4 0,4 | 0,0 4,0 4,4 0,4",
	"rect f64 sub 0,0 4,0 4,4 0,4 | 0,0 4,0 4,4 0,4",
	"rect f64 xor 0,0 4,0 4,4 0,4 | 0,0 4,0 4,4 0,4",
	"rect f64 intersect 0,0 4,0 4,4 0,4 | 4,0 8,0 8,4 4,4",
	"rect f64 union 0,0 4,0 4,4 0,4 | 4,0 8,0 8,4 4,4",
	"rect f64 union 0,0 4,0 4,4 0,4 | 4,4 8,4 8,8 4,8",
	"rect f64 intersect 0,0 4,0 4,4 0,4 | 4,4 8,4 8,8 4,8",
	"rect f32 sub 0,0 8,0 8,8 0,8 | 2,2 6,2 6,6 2,6",
	"rect f64 xor 0,0 8,0 8,8 0,8;2,2 6,2 6,6 2,6 | 1,1 7,1 7,7 1,7",
	"rect f64 union - | 0,0 1,0 1,1 0,1",
	"rect f64 intersect - | 0,0 1,0 1,1 0,1",
	"rect f64 sub 0,0 1,0 1,1 0,1 | -",
	"rect f64 union 0,0 2,0 2,0 0,0 | 0,0 1,0 1,1 0,1",
}

func gen(r *hx.Rand, n int) []string {
	var out []string
	for i := 0; i < n; i++ {
		ft := []string{"f64", "f64", "f32"}[r.Intn(3)]
		op := opNames[r.Intn(4)]
		switch {
		case i < len(corpus):
			out = append(out, corpus[i])
		case i%4 == 3:
			out = append(out, fmt.Sprintf("gen %s %s %s | %s", ft, op, genAnyPoly(r), genAnyPoly(r)))
		case i%4 == 1:
			out = append(out, fmt.Sprintf("gen %s %s %s | %s", ft, op, genGridPoly(r), genGridPoly(r)))
		default:
			out = append(out, fmt.Sprintf("rect %s %s %s | %s", ft, op, genRectPoly(r), genRectPoly(r)))
		}
	}
	return out
}

func main() { hx.Main(gen, run) }
