// C16 harness: the rate limiter driven in real time.
//
// Timed case: "root <cap>;use <rid> <lim> <amount>;new <parent> <cap>;setcap <lim> <cap>;close <lim>;tick;..." - limiters
// are numbered in creation order (0 = root). The ticker period is 80 ms; operations of one phase are issued 20 ms after a
// tick, and "tick" waits until 10 ms after the next tick before collecting the answers that arrived. After every operation:
// "<rid>=<G|N|C|X>,...|<lastUsed>:<closed>:<cap with parents>,..." (answers sorted by request id; G granted, N negative,
// C over capacity, X closed). Every case ends by closing the root, which must answer every pending request.
//
// Hot case: "hot <rounds> <period µs> <child 0|1>": Close (of the root, or of a child and then the root) under a ticker that
// fires continuously, with requests pending and users running, each under a 500 ms deadline: "ok" or "CLOSE-HUNG@<round>".
package main

import (
	"fmt"
	"sort"
	"strings"
	"sync"
	"time"

	"github.com/richardwilkes/toolbox/rate"
	"verifharness/hx"
)

const period = 80 * time.Millisecond

func kind(err error) string {
	switch {
	case err == nil:
		return "G"
	case strings.Contains(err.Error(), "must be positive"):
		return "N"
	case strings.Contains(err.Error(), "greater than capacity"):
		return "C"
	case strings.Contains(err.Error(), "closed"):
		return "X"
	}
	return "?"
}

type pending struct {
	rid int
	ch  <-chan error
}

func runHot(f []string) string {
	rounds, us, child := hx.Atoi(f[1]), hx.Atoi(f[2]), f[3] == "1"
	for i := 0; i < rounds; i++ {
		root := rate.New(10, time.Duration(us)*time.Microsecond)
		kid := root.New(5)
		var chans []<-chan error
		chans = append(chans, root.Use(10), kid.Use(5), root.Use(7), kid.Use(3)) // the last ones have to wait
		stop := make(chan struct{})
		var wg sync.WaitGroup
		for g := 0; g < 2; g++ {
			wg.Add(1)
			go func() {
				defer wg.Done()
				for {
					select {
					case <-stop:
						return
					default:
						<-kid.Use(1)
					}
				}
			}()
		}
		closed := make(chan struct{})
		go func() {
			if child {
				kid.Close()
			}
			root.Close()
			close(closed)
		}()
		select {
		case <-closed:
		case <-time.After(500 * time.Millisecond):
			close(stop)
			return fmt.Sprintf("CLOSE-HUNG@%d", i)
		}
		close(stop)
		done := make(chan struct{})
		go func() { wg.Wait(); close(done) }()
		select {
		case <-done:
		case <-time.After(500 * time.Millisecond):
			return fmt.Sprintf("USER-HUNG@%d", i)
		}
		for j, ch := range chans { // every request has exactly one answer by now
			select {
			case <-ch:
			case <-time.After(200 * time.Millisecond):
				return fmt.Sprintf("UNANSWERED@%d.%d", i, j)
			}
		}
		if !root.Closed() || !kid.Closed() {
			return fmt.Sprintf("NOT-CLOSED@%d", i)
		}
	}
	return "ok"
}

func run(c string) (obs string) {
	defer func() {
		if e := recover(); e != nil {
			obs = "P"
		}
	}()
	ops := strings.Split(c, ";")
	if f := strings.Fields(ops[0]); f[0] == "hot" {
		return runHot(f)
	}
	var lims []rate.Limiter
	var pend []pending
	var out []string
	var t0 time.Time
	ticks := 0
	sleepUntil := func(t time.Time) {
		if d := time.Until(t); d > 0 {
			time.Sleep(d)
		}
	}
	collect := func(now []string) string {
		var keep []pending
		for _, p := range pend {
			select {
			case err := <-p.ch:
				now = append(now, fmt.Sprintf("%03d=%s", p.rid, kind(err)))
			default:
				keep = append(keep, p)
			}
		}
		pend = keep
		sort.Strings(now)
		var st []string
		for _, l := range lims {
			st = append(st, fmt.Sprintf("%d:%s:%d", l.LastUsed(), hx.B2i(l.Closed()), l.Cap(true)))
		}
		return strings.Join(now, ",") + "|" + strings.Join(st, ",")
	}
	defer func() {
		if len(lims) > 0 {
			done := make(chan struct{})
			go func() { lims[0].Close(); close(done) }()
			select {
			case <-done:
			case <-time.After(time.Second):
			}
		}
	}()
	for _, o := range ops {
		f := strings.Fields(o)
		if len(f) == 0 {
			continue
		}
		if f[0] != "root" && len(lims) == 0 {
			return "BADCASE"
		}
		switch f[0] {
		case "root":
			lims = append(lims, rate.New(hx.Atoi(f[1]), period))
			t0 = time.Now()
			sleepUntil(t0.Add(20 * time.Millisecond))
			continue
		case "use":
			l := hx.Atoi(f[2])
			if l >= len(lims) {
				return "BADCASE"
			}
			ch := lims[l].Use(hx.Atoi(f[3]))
			pend = append(pend, pending{hx.Atoi(f[1]), ch})
			out = append(out, collect(nil))
		case "new":
			p := hx.Atoi(f[1])
			if p >= len(lims) {
				return "BADCASE"
			}
			if k := lims[p].New(hx.Atoi(f[2])); k != nil {
				lims = append(lims, k)
			}
			out = append(out, collect(nil))
		case "setcap":
			l := hx.Atoi(f[1])
			if l >= len(lims) {
				return "BADCASE"
			}
			lims[l].SetCap(hx.Atoi(f[2]))
			out = append(out, collect(nil))
		case "close":
			l := hx.Atoi(f[1])
			if l >= len(lims) {
				return "BADCASE"
			}
			done := make(chan struct{})
			go func() { lims[l].Close(); close(done) }()
			select {
			case <-done:
			case <-time.After(time.Second):
				return strings.Join(append(out, "CLOSE-HUNG"), " / ")
			}
			time.Sleep(3 * time.Millisecond) // the root's pending requests are failed by the ticker goroutine
			out = append(out, collect(nil))
		case "tick":
			ticks++
			sleepUntil(t0.Add(time.Duration(ticks)*period + 10*time.Millisecond))
			out = append(out, collect(nil))
			sleepUntil(t0.Add(time.Duration(ticks)*period + 20*time.Millisecond))
		default:
			return "BADCASE"
		}
	}
	if len(pend) > 0 {
		out = append(out, fmt.Sprintf("UNANSWERED:%d", len(pend)))
	}
	return strings.Join(out, " / ")
}

func gen(r *hx.Rand, n int) []string {
	var out []string
	for i := 0; i < n; i++ {
		if i%12 == 11 {
			out = append(out, fmt.Sprintf("hot %d %d %d", r.Range(5, 20), []int{20, 50, 200, 1000}[r.Intn(4)], r.Intn(2)))
			continue
		}
		rootCap := []int{0, 1, 5, 10, 10, 20}[r.Intn(6)]
		ops := []string{fmt.Sprintf("root %d", rootCap)}
		caps := []int{rootCap}
		closed := []bool{false}
		parent := []int{-1}
		rid := 1
		nl := func() int { return r.Intn(len(caps)) }
		for k := r.Range(3, 28); k > 0; k-- {
			switch x := r.Intn(20); {
			case x < 10:
				l := nl()
				var amt int
				switch r.Intn(8) {
				case 0:
					amt = -1 - r.Intn(3)
				case 1:
					amt = 0
				case 2:
					amt = caps[l] + 1 + r.Intn(4)
				case 3:
					amt = caps[l]
				default:
					amt = r.Range(1, caps[l]+1)
				}
				ops = append(ops, fmt.Sprintf("use %d %d %d", rid, l, amt))
				rid++
			case x < 14:
				ops = append(ops, "tick")
			case x < 17:
				if len(caps) < 7 {
					p := nl()
					c := []int{1, 3, 5, 8, 15, 30}[r.Intn(6)] // also caps larger than the parent's
					ops = append(ops, fmt.Sprintf("new %d %d", p, c))
					if !closed[p] {
						caps = append(caps, c)
						closed = append(closed, false)
						parent = append(parent, p)
					}
				}
			case x < 18:
				l := nl()
				c := []int{0, 2, 6, 12, 25}[r.Intn(5)]
				ops = append(ops, fmt.Sprintf("setcap %d %d", l, c))
				caps[l] = c
			default:
				l := nl()
				if l == 0 && r.Chance(2, 3) {
					continue // keep the root open most of the time
				}
				ops = append(ops, fmt.Sprintf("close %d", l))
				for j := range closed { // the generator's own bookkeeping: a closed limiter closes its descendants
					for a := j; a >= 0; a = parent[a] {
						if a == l {
							closed[j] = true
						}
					}
				}
			}
		}
		ops = append(ops, "tick", "close 0")
		out = append(out, strings.Join(ops, ";"))
	}
	return out
}

func main() { hx.Main(gen, run) }
