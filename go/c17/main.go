// C17 harness: histories over two notifiers and six targets (three batch-capable, two panicking); every call a target
// receives is logged. Built with -race; some cases are concurrent stress runs whose only observable is "no data race, no hang".
package main

import (
	"fmt"
	"sort"
	"strings"
	"sync"
	"sync/atomic"

	"github.com/richardwilkes/toolbox/notifier"
	"verifharness/hx"
)

type logT struct {
	mu    sync.Mutex
	calls []string
}

func (l *logT) add(s string) { l.mu.Lock(); l.calls = append(l.calls, s); l.mu.Unlock() }

type target struct {
	id    int
	log   *logT
	panic bool
}

func (t *target) HandleNotification(name string, _, _ any) {
	t.log.add(fmt.Sprintf("%d:%s", t.id, hx.Hex(name)))
	if t.panic {
		if atomic.AddInt64(&panicCount, 1)%2 == 0 {
			var np *int
			panic(np) // a typed nil inside a non-nil interface is still a panic
		}
		panic("target panics")
	}
}

type batchTarget struct{ target }

func (t *batchTarget) BatchMode(start bool) {
	t.log.add(fmt.Sprintf("%d:B%s", t.id, hx.B2i(start)))
	if t.panic {
		panic("batch target panics")
	}
}

var namePool = []string{"a", "a.b", "a.b.c", "a.bc", "x", "a..b", ".a.", "", "x.y", "a.b.c.d", "..", "ab", "a.b.", "x.y.z", "b",
	"a...b", "a....b.c", "...x", "x...y...", "....", "a.b...c"}

func gen(r *hx.Rand, n int) []string {
	var out []string
	for c := 0; c < n; c++ {
		if c%40 == 39 {
			out = append(out, fmt.Sprintf("stress %d", r.Intn(1<<30)))
			continue
		}
		nops := r.Range(1, 40)
		if r.Chance(1, 8) {
			nops = r.Range(40, 80)
		}
		ops := make([]string, 0, nops)
		if c%5 == 4 {
			// a scripted phase first: batch targets registered, complete (possibly nested) batches, then every batch target
			// unregistered (or the notifier disabled / merged) and batches again
			w := r.Intn(2)
			for i := 0; i < r.Range(1, 3); i++ {
				ops = append(ops, fmt.Sprintf("reg %d %d %d %s", w, r.Range(3, 5), r.Intn(4), hx.Hex(namePool[r.Intn(5)])))
			}
			depth := r.Range(1, 3)
			for i := 0; i < depth; i++ {
				ops = append(ops, fmt.Sprintf("start %d", w))
			}
			for i := 0; i < depth; i++ {
				ops = append(ops, fmt.Sprintf("end %d", w))
			}
			switch r.Intn(4) {
			case 0, 1:
				for t := 3; t < 6; t++ {
					ops = append(ops, fmt.Sprintf("unreg %d %d", w, t))
				}
			case 2:
				ops = append(ops, fmt.Sprintf("from %d", 1-w))
			default:
				ops = append(ops, fmt.Sprintf("reg %d %d 1 %s", w, r.Intn(3), hx.Hex("x")))
			}
			ops = append(ops, fmt.Sprintf("start %d", w), fmt.Sprintf("notify %d %s", w, hx.Hex("a.b")), fmt.Sprintf("end %d", w))
		}
		for k := 0; k < nops; k++ {
			w := r.Intn(2)
			switch r.Intn(16) {
			case 0, 1, 2, 3, 4:
				nn := r.Range(1, 3)
				nm := make([]string, nn)
				for i := range nm {
					nm[i] = hx.Hex(namePool[r.Intn(len(namePool))])
				}
				ops = append(ops, fmt.Sprintf("reg %d %d %d %s", w, r.Intn(6), r.Intn(4), strings.Join(nm, ",")))
			case 5:
				ops = append(ops, fmt.Sprintf("from %d", w))
			case 6:
				ops = append(ops, fmt.Sprintf("unreg %d %d", w, r.Intn(6)))
			case 7:
				ops = append(ops, fmt.Sprintf("enable %d %d", w, r.Intn(2)))
			case 8:
				if r.Chance(1, 3) {
					ops = append(ops, fmt.Sprintf("reset %d", w))
				} else {
					ops = append(ops, fmt.Sprintf("enable %d 1", w))
				}
			case 9:
				ops = append(ops, fmt.Sprintf("start %d", w))
			case 10:
				ops = append(ops, fmt.Sprintf("end %d", w))
			default:
				ops = append(ops, fmt.Sprintf("notify %d %s", w, hx.Hex(namePool[r.Intn(len(namePool))])))
			}
		}
		out = append(out, strings.Join(ops, ";"))
	}
	return out
}

func mkTargets(l *logT) []notifier.Target {
	ts := make([]notifier.Target, 6)
	for i := 0; i < 6; i++ {
		base := target{id: i, log: l, panic: i == 2 || i == 5}
		if i >= 3 {
			ts[i] = &batchTarget{base}
		} else {
			b := base
			ts[i] = &b
		}
	}
	return ts
}

func stress(seed int) string {
	l := &logT{}
	var pmu sync.Mutex
	panics := 0
	ns := []*notifier.Notifier{
		notifier.New(func(error) { pmu.Lock(); panics++; pmu.Unlock() }),
		notifier.New(func(error) { pmu.Lock(); panics++; pmu.Unlock() }),
	}
	ts := mkTargets(l)
	var wg sync.WaitGroup
	for g := 0; g < 6; g++ {
		wg.Add(1)
		go func(g int) {
			defer wg.Done()
			r := hx.NewRand(uint64(seed*16 + g))
			for k := 0; k < 300; k++ {
				n := ns[r.Intn(2)]
				switch r.Intn(9) {
				case 0, 1:
					n.Register(ts[r.Intn(6)], r.Intn(4), namePool[r.Intn(len(namePool))])
				case 2:
					n.Unregister(ts[r.Intn(6)])
				case 3:
					n.RegisterFromNotifier(ns[r.Intn(2)])
				case 4:
					n.StartBatch()
				case 5:
					n.EndBatch()
				case 6:
					n.SetEnabled(r.Chance(3, 4))
				case 7:
					if r.Chance(1, 10) {
						n.Reset()
					}
				default:
					n.Notify(namePool[r.Intn(len(namePool))], nil)
				}
			}
		}(g)
	}
	wg.Wait()
	return "stress-done"
}

func run(c string) (obs string) {
	if strings.HasPrefix(c, "stress ") {
		return stress(hx.Atoi(strings.Fields(c)[1]))
	}
	var done []string
	defer func() {
		if e := recover(); e != nil {
			obs = strings.Join(append(done, "PANIC"), " / ")
		}
	}()
	l := &logT{}
	panics := 0
	ns := []*notifier.Notifier{notifier.New(func(error) { panics++ }), notifier.New(func(error) { panics++ })}
	ts := mkTargets(l)
	for _, o := range strings.Split(c, ";") {
		f := strings.Fields(o)
		if len(f) == 0 {
			continue
		}
		l.calls = nil
		panics = 0
		w := hx.Atoi(f[1])
		switch f[0] {
		case "reg":
			var names []string
			for _, h := range strings.Split(f[4], ",") {
				names = append(names, hx.UnHex(h))
			}
			ns[w].Register(ts[hx.Atoi(f[2])], hx.Atoi(f[3]), names...)
		case "from":
			ns[w].RegisterFromNotifier(ns[1-w])
		case "unreg":
			ns[w].Unregister(ts[hx.Atoi(f[2])])
		case "enable":
			ns[w].SetEnabled(f[2] == "1")
		case "reset":
			ns[w].Reset()
		case "notify":
			ns[w].Notify(hx.UnHex(f[2]), nil)
		case "start":
			ns[w].StartBatch()
		case "end":
			ns[w].EndBatch()
		default:
			return "BADCASE"
		}
		// raw call order, the sorted multiset, the number of reported panics, the batch level
		raw := strings.Join(l.calls, ",")
		sorted := append([]string(nil), l.calls...)
		sort.Strings(sorted)
		if raw == "" {
			raw = "."
		}
		s := strings.Join(sorted, ",")
		if s == "" {
			s = "."
		}
		done = append(done, fmt.Sprintf("set=%s order=%s p=%d lv=%d,%d", s, raw, panics, ns[0].BatchLevel(), ns[1].BatchLevel()))
	}
	return strings.Join(done, " / ")
}

var panicCount int64

func main() { hx.Main(gen, run) }
