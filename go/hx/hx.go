// Package hx holds what every property harness shares: the PRNG (one splitmix64 stream per run), the
// line protocol ("<case> => <observation>"), hex coding of byte strings and the gen/run command line.
package hx

import (
	"bufio"
	"encoding/hex"
	"fmt"
	"io"
	"math/big"
	"os"
	"os/exec"
	"strconv"
	"strings"
	"time"
)

// Rand is a splitmix64 stream; every random choice of a run derives from the one seed.
type Rand struct{ s uint64 }

func NewRand(seed uint64) *Rand {
	// scramble the seed so that neighbouring seeds give unrelated streams
	z := seed + 0x632BE59BD9B4E019
	z = (z ^ (z >> 32)) * 0xD6E8FEB86659FD93
	z = (z ^ (z >> 32)) * 0xD6E8FEB86659FD93
	z ^= z >> 32
	return &Rand{s: z}
}

func (r *Rand) U64() uint64 {
	r.s += 0x9E3779B97F4A7C15
	z := r.s
	z = (z ^ (z >> 30)) * 0xBF58476D1CE4E5B9
	z = (z ^ (z >> 27)) * 0x94D049BB133111EB
	return z ^ (z >> 31)
}

// Intn returns a value in [0,n).
func (r *Rand) Intn(n int) int {
	if n <= 0 {
		return 0
	}
	return int(r.U64() % uint64(n))
}

// Range returns a value in [lo,hi].
func (r *Rand) Range(lo, hi int) int { return lo + r.Intn(hi-lo+1) }

func (r *Rand) Bool() bool { return r.U64()&1 == 1 }

// Chance is true with probability num/den.
func (r *Rand) Chance(num, den int) bool { return r.Intn(den) < num }

// BitLen64 returns a value with a uniformly random bit length in 0..64.
func (r *Rand) BitLen64() uint64 {
	n := r.Intn(65)
	if n == 0 {
		return 0
	}
	v := r.U64()
	if n < 64 {
		v &= (uint64(1) << uint(n)) - 1
	}
	v |= uint64(1) << uint(n-1)
	return v
}

// Hex encodes a byte string; the empty string is "-".
func Hex(s string) string {
	if s == "" {
		return "-"
	}
	return hex.EncodeToString([]byte(s))
}

// UnHex decodes what Hex produced.
func UnHex(s string) string {
	if s == "-" {
		return ""
	}
	b, err := hex.DecodeString(s)
	if err != nil {
		panic("bad hex in case: " + s)
	}
	return string(b)
}

func Atoi(s string) int {
	n, err := strconv.Atoi(s)
	if err != nil {
		panic("bad int in case: " + s)
	}
	return n
}

// Out is the buffered line writer all observations go through.
var Out = bufio.NewWriterSize(os.Stdout, 1<<20)

// Emit writes one "case => observation" line.
func Emit(c, obs string) {
	Out.WriteString(c)
	Out.WriteString(" => ")
	Out.WriteString(obs)
	Out.WriteByte('\n')
}

// Main implements the command line shared by all harnesses:
//
//	<bin> gen <seed> <n>    generate n cases, run them on the real code, print "case => observation" lines
//	<bin> run <file>        read case lines (anything after " => " is ignored), run them, print lines
//	<bin> worker            (internal) read case lines on stdin, answer each on stdout
//
// gen and run execute the cases in a child process (worker) under a per-case watchdog: a case that does not answer
// within VERIF_CASE_TIMEOUT seconds (default 10) is reported as "HANG", a case on which the process dies as "CRASH",
// and the worker is restarted for the next case. gen(r, n) returns the case strings; run(case) the canonical observation.
func Main(gen func(r *Rand, n int) []string, run func(c string) string) {
	defer Out.Flush()
	if len(os.Args) < 2 {
		fmt.Fprintln(os.Stderr, "usage: gen <seed> <n> | run <file>")
		os.Exit(2)
	}
	switch os.Args[1] {
	case "gen":
		seed, _ := strconv.ParseUint(os.Args[2], 10, 64)
		n, _ := strconv.Atoi(os.Args[3])
		isolated(gen(NewRand(seed), n))
	case "run":
		f, err := os.Open(os.Args[2])
		if err != nil {
			fmt.Fprintln(os.Stderr, err)
			os.Exit(2)
		}
		sc := bufio.NewScanner(f)
		sc.Buffer(make([]byte, 1<<20), 1<<28)
		var cases []string
		for sc.Scan() {
			line := sc.Text()
			if i := strings.Index(line, " => "); i >= 0 {
				line = line[:i]
			}
			if strings.TrimSpace(line) == "" || strings.HasPrefix(line, "#") {
				continue
			}
			cases = append(cases, line)
		}
		isolated(cases)
	case "worker":
		sc := bufio.NewScanner(os.Stdin)
		sc.Buffer(make([]byte, 1<<20), 1<<28)
		for sc.Scan() {
			c := sc.Text()
			Emit(c, run(c))
			Out.Flush()
		}
	default:
		os.Exit(2)
	}
}

type worker struct {
	cmd   *exec.Cmd
	in    io.WriteCloser
	lines chan string
}

func startWorker() *worker {
	cmd := exec.Command(os.Args[0], "worker")
	cmd.Stderr = io.Discard
	cmd.Env = append(os.Environ(), "GORACE=halt_on_error=1") // a detected data race kills the worker: the case is reported as CRASH
	in, err := cmd.StdinPipe()
	if err != nil {
		panic(err)
	}
	out, err := cmd.StdoutPipe()
	if err != nil {
		panic(err)
	}
	if err = cmd.Start(); err != nil {
		panic(err)
	}
	w := &worker{cmd: cmd, in: in, lines: make(chan string, 16)}
	go func() {
		sc := bufio.NewScanner(out)
		sc.Buffer(make([]byte, 1<<20), 1<<28)
		for sc.Scan() {
			w.lines <- sc.Text()
		}
		close(w.lines)
	}()
	return w
}

// exitCode waits for a worker whose output has ended and returns its exit status (-1 if it was killed by a signal).
func (w *worker) exitCode() int {
	_ = w.in.Close()
	err := w.cmd.Wait()
	if err == nil {
		return 0
	}
	if ee, ok := err.(*exec.ExitError); ok {
		return ee.ExitCode()
	}
	return -1
}

func (w *worker) stop() {
	_ = w.in.Close()
	_ = w.cmd.Process.Kill()
	_, _ = w.cmd.Process.Wait()
}

func isolated(cases []string) {
	limit := 10 * time.Second
	if v, err := strconv.Atoi(os.Getenv("VERIF_CASE_TIMEOUT")); err == nil && v > 0 {
		limit = time.Duration(v) * time.Second
	}
	var w *worker
	bad := 0
	for _, c := range cases {
		if bad >= 3 { // the code under test hangs or crashes repeatedly: three witnesses are enough, do not wait for more
			break
		}
		if w == nil {
			w = startWorker()
		}
		if _, err := io.WriteString(w.in, c+"\n"); err != nil {
			w.stop()
			w = nil
			Emit(c, "CRASH")
			continue
		}
		select {
		case line, ok := <-w.lines:
			if !ok {
				code := w.exitCode()
				w = nil
				if code == 1 {
					// a deliberate os.Exit(1) (the library's fatal-exit path) is an observation of its own, not a crash
					Emit(c, "EXIT1")
					continue
				}
				bad++
				Emit(c, "CRASH")
				continue
			}
			Out.WriteString(line)
			Out.WriteByte('\n')
		case <-time.After(limit):
			w.stop()
			w = nil
			bad++
			Emit(c, "HANG")
		}
	}
	if w != nil {
		w.finish()
	}
}

// finish lets a healthy worker end by itself (end of input), so that a coverage-instrumented worker writes its counters;
// it is killed only if it does not go away within three seconds.
func (w *worker) finish() {
	_ = w.in.Close()
	done := make(chan struct{})
	go func() { _, _ = w.cmd.Process.Wait(); close(done) }()
	select {
	case <-done:
	case <-time.After(3 * time.Second):
		_ = w.cmd.Process.Kill()
		<-done
	}
}

// RatF returns the exact value of a finite float64 as "num/den".
func RatF(f float64) string {
	r := new(big.Rat)
	if r.SetFloat64(f) == nil {
		return "nan"
	}
	return r.String()
}

// ParseRat parses "num/den" or an integer into a float64 (exact when the value is a float64).
func ParseRat(s string) float64 {
	r, ok := new(big.Rat).SetString(s)
	if !ok {
		panic("bad rational in case: " + s)
	}
	f, _ := r.Float64()
	return f
}

// B2i renders a bool as 1/0.
func B2i(b bool) string {
	if b {
		return "1"
	}
	return "0"
}
