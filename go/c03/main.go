// C03 harness: every arithmetic / rounding / comparison / integer-conversion method of f64.Int and f128.Int in all sixteen
// configurations. f64 operands are raw int64 values; f128 operands are raw 128-bit values written as exact decimal text.
package main

import (
	"fmt"
	"math/big"
	"strings"

	"verifharness/hx"
)

type rec struct{ sb *strings.Builder }

func (r rec) do(name string, f func() string) {
	var res string
	func() {
		defer func() {
			if e := recover(); e != nil {
				res = "PANIC"
			}
		}()
		res = f()
	}()
	r.sb.WriteString(name + "=" + res + " ")
}

func b2(b bool) string { return hx.B2i(b) }

var pow10 [17]int64

func init() {
	pow10[0] = 1
	for i := 1; i <= 16; i++ {
		pow10[i] = pow10[i-1] * 10
	}
}

// rawText renders raw/10^d exactly.
func rawText(raw *big.Int, d int) string {
	neg := raw.Sign() < 0
	s := new(big.Int).Abs(raw).String()
	for len(s) <= d {
		s = "0" + s
	}
	s = s[:len(s)-d] + "." + s[len(s)-d:]
	if neg {
		s = "-" + s
	}
	return s
}

func genRaw64(r *hx.Rand, m int64) int64 {
	switch r.Intn(12) {
	case 0:
		return []int64{0, 1, -1, m, -m, m / 2, -m / 2, m/2 + 1, -m/2 - 1, m/2 - 1, -m/2 + 1, 3 * m / 2, -3 * m / 2, 5 * m / 2, -5 * m / 2}[r.Intn(15)]
	case 1:
		return []int64{9223372036854775807, -9223372036854775808, 9223372036854775807 / m, -9223372036854775807 / m, 3037000499, 3037000500, -3037000500, 4294967296}[r.Intn(8)]
	case 2: // whole numbers and halves
		return int64(r.Range(-50, 50))*m + []int64{0, m / 2, -m / 2}[r.Intn(3)]
	case 3:
		return int64(r.Range(-300, 300))
	default:
		v := int64(r.BitLen64() >> 1)
		if r.Bool() {
			v = -v
		}
		if r.Chance(1, 2) {
			v >>= uint(r.Intn(40))
		}
		return v
	}
}

func gen(r *hx.Rand, n int) []string {
	var out []string
	for i := 0; i < n; i++ {
		d := r.Range(1, 16)
		m := pow10[d]
		if r.Chance(1, 2) {
			out = append(out, fmt.Sprintf("f64 %d %d %d", d, genRaw64(r, m), genRaw64(r, m)))
			continue
		}
		mk := func() *big.Int {
			v := big.NewInt(genRaw64(r, m))
			if r.Chance(1, 3) { // beyond 64 bits
				v.Mul(v, big.NewInt(int64(r.BitLen64()>>uint(1+r.Intn(60)))+1))
			}
			if r.Chance(1, 20) {
				v = new(big.Int).Lsh(big.NewInt(1), 127)
				v.Sub(v, big.NewInt(int64(r.Intn(3))))
				if r.Bool() {
					v.Neg(v)
				}
			}
			min := new(big.Int).Neg(new(big.Int).Lsh(big.NewInt(1), 127))
			max := new(big.Int).Sub(new(big.Int).Lsh(big.NewInt(1), 127), big.NewInt(1))
			if v.Cmp(min) < 0 {
				v = min
			}
			if v.Cmp(max) > 0 {
				v = max
			}
			return v
		}
		out = append(out, fmt.Sprintf("f128 %d %s %s", d, mk().String(), mk().String()))
	}
	return out
}

func run(c string) string {
	f := strings.Fields(c)
	if len(f) != 4 {
		return "BADCASE"
	}
	d := hx.Atoi(f[1])
	var sb strings.Builder
	r := rec{&sb}
	switch f[0] {
	case "f64":
		var a, b int64
		fmt.Sscan(f[2], &a)
		fmt.Sscan(f[3], &b)
		dispatch64(d, r, a, b)
	case "f128":
		a, _ := new(big.Int).SetString(f[2], 10)
		b, _ := new(big.Int).SetString(f[3], 10)
		a64 := int64(new(big.Int).And(a, new(big.Int).SetUint64(^uint64(0))).Uint64()) // low 64 bits of the two's complement value
		if a.Sign() < 0 {
			t := new(big.Int).Add(a, new(big.Int).Lsh(big.NewInt(1), 128))
			a64 = int64(new(big.Int).And(t, new(big.Int).SetUint64(^uint64(0))).Uint64())
		}
		dispatch128(d, r, rawText(a, d), rawText(b, d), a64)
	default:
		return "BADCASE"
	}
	return strings.TrimRight(sb.String(), " ")
}

func main() { hx.Main(gen, run) }
