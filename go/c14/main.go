// C14 harness: xio/fs/safe under strace.
//
// Each case runs in a child process (this binary, "c14child ...") under `strace -f`, in a fresh directory whose destination
// "dest" is pre-seeded (old=1), absent (old=0) or a non-empty directory (old=dir, so that the final rename must fail).
//
//	wf <old> <mode> <fail: - | k> <sizes,...>       safe.WriteFileWithMode; the writer makes one Write per size and fails after k of them
//	file <old> <mode> <ops: w<n>|commit|close,...>   safe.CreateWithMode and the File API, in the given order
//	kill <syscall> <n> <old> <mode> <sizes,...>      as wf, but the child is SIGKILLed on entering the n-th <syscall>
//
// Observation: "ret=<results> dest=<old|new:<len>|none|dir|other:<len>> mode=<octal> temps=<count> trace=<calls on the temporary file>"
// where results are the values returned (0 nil, 1 error, I os.ErrInvalid), and the trace is rebuilt from strace's log:
// O (temporary file created O_EXCL in the destination's directory), W<n>, C, R1/R0 (rename onto the destination, succeeded/failed), U (unlink).
package main

import (
	"bufio"
	"errors"
	"fmt"
	"io"
	"os"
	"os/exec"
	"os/signal"
	"path/filepath"
	"regexp"
	"strings"
	"syscall"

	"github.com/richardwilkes/toolbox/xio/fs/safe"
	"verifharness/hx"
)

const oldContent = "the previous content of the destination\n"

func pattern(n int) []byte {
	b := make([]byte, n)
	for i := range b {
		b[i] = byte((i*7 + 3) % 251)
	}
	return b
}

func sizes(s string) []int {
	var out []int
	if s == "" || s == "-" {
		return out
	}
	for _, p := range strings.Split(s, ",") {
		out = append(out, hx.Atoi(p))
	}
	return out
}

func res(err error) string {
	switch {
	case err == nil:
		return "0"
	case errors.Is(err, os.ErrInvalid):
		return "I"
	}
	return "1"
}

// child: performs the scenario in dir and prints "ret=..."
func child(args []string) {
	dir, kind := args[0], args[1]
	syscall.Umask(0o022)
	dest := filepath.Join(dir, "dest")
	switch args[len(args)-1] { // a destination given relative to the working directory
	case "rel":
		_ = os.Chdir(dir)
		dest = "dest"
	case "dot":
		_ = os.Chdir(dir)
		dest = "./dest"
	}
	var mode os.FileMode
	fmt.Sscanf(args[3], "%o", &mode)
	switch kind {
	case "wf":
		failAfter := -1
		if args[4] != "-" {
			failAfter = hx.Atoi(args[4])
		}
		sz := sizes(args[5])
		off := 0
		total := 0
		for _, n := range sz {
			total += n
		}
		data := pattern(total)
		write := func(name string, fn func(io.Writer) error, m os.FileMode) error {
			if m == 0o644 { // the mode-less entry point is WriteFileWithMode(..., 0o644)
				return safe.WriteFile(name, fn)
			}
			return safe.WriteFileWithMode(name, fn, m)
		}
		err := write(dest, func(w io.Writer) error {
			for i, n := range sz {
				if i == failAfter {
					return errors.New("writer failed")
				}
				if _, werr := w.Write(data[off : off+n]); werr != nil {
					return werr
				}
				off += n
			}
			if failAfter >= len(sz) {
				return errors.New("writer failed")
			}
			return nil
		}, mode)
		fmt.Printf("ret=%s\n", res(err))
	case "wfx":
		// args: old mode limit sizes - the process may not grow a file beyond <limit> bytes (the signal is ignored so that the
		// write fails with EFBIG instead), and the writer callback ignores what its Write calls return
		limit := uint64(hx.Atoi(args[4]))
		signal.Ignore(syscall.SIGXFSZ)
		if err := syscall.Setrlimit(syscall.RLIMIT_FSIZE, &syscall.Rlimit{Cur: limit, Max: limit}); err != nil {
			fmt.Printf("ret=setrlimit-failed\n")
			return
		}
		sz := sizes(args[5])
		total := 0
		for _, n := range sz {
			total += n
		}
		data := pattern(total)
		off := 0
		err := safe.WriteFileWithMode(dest, func(w io.Writer) error {
			for _, n := range sz {
				_, _ = w.Write(data[off : off+n])
				off += n
			}
			return nil
		}, mode)
		fmt.Printf("ret=%s\n", res(err))
	case "file":
		var f *safe.File
		var err error
		if mode == 0o644 { // the mode-less entry point is CreateWithMode(..., 0o644)
			f, err = safe.Create(dest)
		} else {
			f, err = safe.CreateWithMode(dest, mode)
		}
		if err != nil {
			fmt.Printf("ret=create-failed\n")
			return
		}
		if f.OriginalName() != filepath.Clean(dest) { // documented: the (cleaned) name passed to Create
			fmt.Printf("ret=original-name-differs\n")
			return
		}
		var rs []string
		off := 0
		data := pattern(1 << 20)
		for _, o := range strings.Split(args[4], ",") {
			switch {
			case o == "commit":
				rs = append(rs, res(f.Commit()))
			case o == "close":
				rs = append(rs, res(f.Close()))
			case strings.HasPrefix(o, "w"):
				n := hx.Atoi(o[1:])
				_, werr := f.Write(data[off : off+n])
				if werr == nil {
					off += n
				}
				rs = append(rs, res(werr))
			}
		}
		fmt.Printf("ret=%s\n", strings.Join(rs, ""))
	}
}

var reLine = regexp.MustCompile(`^(\d+)\s+(.*)$`)

func parseTrace(path, dir string) string {
	f, err := os.Open(path)
	if err != nil {
		return "TRACE-ERROR"
	}
	defer f.Close()
	pending := map[string]string{}
	var calls []string
	tempFd := map[string]bool{}
	isTemp := func(p string) bool { return strings.HasPrefix(p, dir+"/safe") }
	sc := bufio.NewScanner(f)
	sc.Buffer(make([]byte, 1<<20), 1<<26)
	quoted := regexp.MustCompile(`"((?:[^"\\]|\\.)*)"`)
	for sc.Scan() {
		m := reLine.FindStringSubmatch(sc.Text())
		if m == nil {
			continue
		}
		pid, rest := m[1], m[2]
		if strings.HasSuffix(rest, "<unfinished ...>") {
			pending[pid] = strings.TrimSuffix(rest, "<unfinished ...>")
			continue
		}
		if strings.HasPrefix(rest, "<... ") {
			if i := strings.Index(rest, "resumed>"); i >= 0 {
				rest = pending[pid] + rest[i+len("resumed>"):]
				delete(pending, pid)
			}
		}
		eq := strings.LastIndex(rest, " = ")
		if eq < 0 {
			continue
		}
		ret := strings.Fields(rest[eq+3:])[0]
		call := strings.TrimSpace(rest[:eq])
		paths := quoted.FindAllStringSubmatch(call, -1)
		for _, pm := range paths { // the child's working directory is the scenario directory whenever it uses relative names
			if !strings.HasPrefix(pm[1], "/") {
				pm[1] = filepath.Join(dir, pm[1])
			}
		}
		switch {
		case strings.HasPrefix(call, "openat("):
			if len(paths) > 0 && isTemp(paths[0][1]) && ret != "-1" {
				if strings.Contains(call, "O_EXCL") && strings.Contains(call, "O_CREAT") {
					calls = append(calls, "O")
				} else {
					calls = append(calls, "O?") // the temporary file must be created exclusively
				}
				tempFd[pid[:0]+ret] = true
			}
		case strings.HasPrefix(call, "write("):
			fd := strings.TrimPrefix(strings.SplitN(call, ",", 2)[0], "write(")
			if tempFd[fd] && ret != "-1" { // a write that fails changes nothing: not part of the compared trace
				calls = append(calls, "W"+ret)
			}
		case strings.HasPrefix(call, "close("):
			fd := strings.TrimSuffix(strings.TrimPrefix(call, "close("), ")")
			if tempFd[fd] {
				calls = append(calls, "C")
				delete(tempFd, fd)
			}
		case strings.HasPrefix(call, "rename"):
			if len(paths) >= 2 && isTemp(paths[0][1]) {
				ok := "R1"
				if ret != "0" {
					continue // a rename that fails changes nothing (os.Rename may even refuse before reaching the kernel)
				}
				if paths[1][1] != dir+"/dest" {
					ok += "?"
				}
				calls = append(calls, ok)
			} else if len(paths) >= 2 && paths[1][1] == dir+"/dest" {
				calls = append(calls, "R?")
			}
		case strings.HasPrefix(call, "unlink"):
			if len(paths) >= 1 && isTemp(paths[0][1]) && ret == "0" {
				calls = append(calls, "U")
			}
		case strings.HasPrefix(call, "truncate") || strings.HasPrefix(call, "ftruncate"):
			calls = append(calls, "T?")
		}
	}
	return strings.Join(calls, ",")
}

func classify(dir string, total int) (string, string, int) {
	dest := filepath.Join(dir, "dest")
	temps := 0
	ents, _ := os.ReadDir(dir)
	for _, e := range ents {
		if e.Name() != "dest" {
			temps++
		}
	}
	fi, err := os.Lstat(dest)
	if err != nil {
		return "none", "0", temps
	}
	if fi.IsDir() {
		return "dir", "0", temps
	}
	b, _ := os.ReadFile(dest)
	mode := fmt.Sprintf("%o", fi.Mode().Perm())
	if string(b) == oldContent {
		return "old", mode, temps
	}
	p := pattern(len(b))
	if string(b) == string(p) {
		return fmt.Sprintf("new:%d", len(b)), mode, temps
	}
	_ = total
	return fmt.Sprintf("other:%d", len(b)), mode, temps
}

func run(c string) string {
	f := strings.Fields(c)
	dir, err := os.MkdirTemp("", "verif-c14-")
	if err != nil {
		return "HARNESS-ERROR"
	}
	defer os.RemoveAll(dir)
	trace := dir + ".strace"
	defer os.Remove(trace)
	self, _ := os.Executable()
	args := []string{"-f", "-qq", "-s", "0", "-o", trace, "-e", "trace=openat,write,close,rename,renameat,renameat2,unlink,unlinkat,truncate,ftruncate"}
	childArgs := f
	killed := false
	if f[0] == "kill" {
		args = append(args, "-e", fmt.Sprintf("inject=%s:signal=SIGKILL:when=%s", f[1], f[2]))
		childArgs = []string{"wf", f[3], f[4], "-", f[5]}
		killed = true
	}
	// the destination's previous state is prepared here, so that an injected kill can only fall inside the operation under test
	oldArg := childArgs[1]
	switch oldArg {
	case "1":
		_ = os.WriteFile(filepath.Join(dir, "dest"), []byte(oldContent), 0o640)
		_ = os.Chmod(filepath.Join(dir, "dest"), 0o640)
	case "dir":
		_ = os.MkdirAll(filepath.Join(dir, "dest", "occupied"), 0o755)
	}
	args = append(args, self, "c14child", dir)
	args = append(args, childArgs...)
	cmd := exec.Command("strace", args...)
	out, _ := cmd.Output()
	ret := strings.TrimSpace(string(out))
	if ret == "" {
		ret = "ret=killed"
	}
	total := 0
	d, mode, temps := classify(dir, total)
	tr := parseTrace(trace, dir)
	if killed {
		return fmt.Sprintf("%s dest=%s mode=%s temps=%d", ret, d, mode, temps)
	}
	return fmt.Sprintf("%s dest=%s mode=%s temps=%d trace=%s", ret, d, mode, temps, tr)
}

func genSizes(r *hx.Rand) string {
	n := r.Intn(5)
	var p []string
	for i := 0; i < n; i++ {
		p = append(p, fmt.Sprint([]int{0, 1, 10, 4096, 50000, 65535, 65536, 65537, 70000, 131072, 200000}[r.Intn(11)]))
	}
	if len(p) == 0 {
		return "-"
	}
	return strings.Join(p, ",")
}

func gen(r *hx.Rand, n int) []string {
	var out []string
	olds := []string{"0", "1", "1", "dir"}
	modes := []string{"644", "600", "755", "666", "400"}
	for i := 0; i < n; i++ {
		old, mode := olds[r.Intn(4)], modes[r.Intn(5)]
		switch {
		case i%10 == 4: // a write fault: the file may not grow beyond <limit> bytes and the writer ignores its Write errors
			if old == "dir" {
				old = "1"
			}
			limit := []int{0, 1, 4096, 65535, 65536, 65537, 70000, 131072, 200000, 400000}[r.Intn(10)]
			out = append(out, strings.TrimSpace(fmt.Sprintf("wfx %s %s %d %s %s", old, mode, limit, genSizes(r), []string{"", "", "rel", "dot"}[r.Intn(4)])))
		case i%10 < 5:
			sz := genSizes(r)
			fail := "-"
			if r.Chance(1, 3) {
				fail = fmt.Sprint(r.Intn(len(sizes(sz)) + 1))
			}
			out = append(out, strings.TrimSpace(fmt.Sprintf("wf %s %s %s %s %s", old, mode, fail, sz, []string{"", "", "rel", "dot"}[r.Intn(4)])))
		case i%10 < 8:
			var ops []string
			for k := r.Range(1, 7); k > 0; k-- {
				switch r.Intn(4) {
				case 0:
					ops = append(ops, "commit")
				case 1:
					ops = append(ops, "close")
				default:
					ops = append(ops, fmt.Sprintf("w%d", []int{0, 1, 100, 70000}[r.Intn(4)]))
				}
			}
			out = append(out, strings.TrimSpace(fmt.Sprintf("file %s %s %s %s", old, mode, strings.Join(ops, ","), []string{"", "", "rel", "dot"}[r.Intn(4)])))
		default:
			sc := []string{"write", "write", "close", "renameat", "openat"}[r.Intn(5)]
			if old == "dir" {
				old = "1"
			}
			out = append(out, fmt.Sprintf("kill %s %d %s %s %s", sc, r.Range(1, 12), old, mode, genSizes(r)))
		}
	}
	return out
}

func main() {
	if len(os.Args) > 2 && os.Args[1] == "c14child" {
		child(os.Args[2:])
		return
	}
	hx.Main(gen, run)
}
