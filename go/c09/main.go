// C09 harness. (sym) the evaluator is instantiated with SYMBOLIC operators, so Evaluate returns the parse tree as text: random
// byte strings and printed random ASTs; (val) the real fixed-point and floating-point evaluators on printed ASTs against a
// reference evaluation of the AST with the library's own operator functions, two whitespace layouts, reused vs fresh evaluator,
// both divide-by-zero modes; (rob) arbitrary strings on the real evaluators under recover.
package main

import (
	"fmt"
	"math"
	"os"
	"strings"

	"github.com/richardwilkes/toolbox/eval"
	"github.com/richardwilkes/toolbox/xmath/fixed"
	"github.com/richardwilkes/toolbox/xmath/fixed/f64"
	"verifharness/hx"
)

type opInfo struct {
	sym   string
	prec  int
	unary bool
	bin   bool
}

var binOps = []opInfo{{"||", 10, false, true}, {"&&", 20, false, true}, {"!=", 30, false, true}, {"==", 30, false, true}, {">=", 40, false, true}, {">", 40, false, true},
	{"<=", 40, false, true}, {"<", 40, false, true}, {"+", 50, true, true}, {"-", 50, true, true}, {"*", 60, false, true}, {"/", 60, false, true}, {"%", 60, false, true}, {"^", 70, false, true}}
var unOps = []string{"-", "+", "!"}

func symbolic() *eval.Evaluator {
	bin := func(sym string) eval.OpFunc {
		return func(l, r any) (any, error) { return "(" + fmt.Sprint(l) + sym + fmt.Sprint(r) + ")", nil }
	}
	un := func(sym string) eval.UnaryOpFunc {
		return func(a any) (any, error) { return "[" + sym + fmt.Sprint(a) + "]", nil }
	}
	fn := func(name string) eval.Function {
		return func(_ *eval.Evaluator, args string) (any, error) { return name + "{" + args + "}", nil }
	}
	return &eval.Evaluator{
		Operators: []*eval.Operator{eval.OpenParen(), eval.CloseParen(), eval.LogicalOr(bin("||")), eval.LogicalAnd(bin("&&")), eval.NotEqual(bin("!=")),
			eval.Not(un("!")), eval.Equal(bin("==")), eval.GreaterThanOrEqual(bin(">=")), eval.GreaterThan(bin(">")), eval.LessThanOrEqual(bin("<=")),
			eval.LessThan(bin("<")), eval.Add(bin("+"), un("+")), eval.Subtract(bin("-"), un("-")), eval.Multiply(bin("*")), eval.Divide(bin("/")),
			eval.Modulo(bin("%")), eval.Power(bin("^"))},
		Functions: map[string]eval.Function{"f": fn("f"), "ab": fn("ab")},
	}
}

// ---- ASTs
type node struct {
	kind  int // 0 literal, 1 unary literal, 2 binary, 3 unary parenthesised, 4 call, 5 redundant parentheses
	text  string
	op    opInfo
	un    string
	l, r  *node
	args  []*node
	name  string
	depth int
}

func prec(n *node) int {
	if n.kind == 2 {
		return n.op.prec
	}
	return 1000
}

func genLit(r *hx.Rand) string {
	if r.Chance(1, 8) { // negative-exponent literal: the '-' after <digit>e is part of the literal, wherever it stands
		return []string{"1e-2", "5e-1", "12e-1", "2.5e-3", "7e-10"}[r.Intn(5)]
	}
	switch r.Intn(3) {
	case 0:
		return fmt.Sprint(r.Intn(100))
	case 1:
		return string(rune('a' + r.Intn(4)))
	default:
		return string(rune('a'+r.Intn(4))) + fmt.Sprint(r.Intn(10))
	}
}

func genAST(r *hx.Rand, depth int) *node {
	if depth <= 0 || r.Chance(1, 4) {
		if r.Chance(1, 5) {
			return &node{kind: 1, text: genLit(r), un: unOps[r.Intn(3)]}
		}
		return &node{kind: 0, text: genLit(r)}
	}
	switch r.Intn(10) {
	case 0:
		return &node{kind: 3, un: unOps[r.Intn(3)], l: genAST(r, depth-1)}
	case 1:
		n := &node{kind: 4, name: []string{"f", "ab"}[r.Intn(2)]}
		for i := r.Intn(3); i > 0; i-- {
			n.args = append(n.args, genAST(r, depth-2))
		}
		return n
	case 2:
		return &node{kind: 5, l: genAST(r, depth-1)}
	default:
		return &node{kind: 2, op: binOps[r.Intn(len(binOps))], l: genAST(r, depth-1), r: genAST(r, depth-1)}
	}
}

func ws(r *hx.Rand) string {
	if r == nil {
		return ""
	}
	return []string{"", "", " ", "  ", "\t", " \n "}[r.Intn(6)]
}

// print with exactly the parentheses precedence and left associativity demand; r == nil prints without any whitespace
func (n *node) print(r *hx.Rand) string {
	switch n.kind {
	case 0:
		return n.text
	case 1:
		return n.un + n.text
	case 3:
		return n.un + "(" + ws(r) + n.l.print(r) + ws(r) + ")"
	case 4:
		parts := make([]string, len(n.args))
		for i, a := range n.args {
			parts[i] = a.print(nil) // the function receives the raw argument text: printed compactly so that it can be predicted
		}
		return n.name + ws(r) + "(" + strings.Join(parts, ",") + ")"
	case 5:
		return "(" + ws(r) + n.l.print(r) + ws(r) + ")"
	default:
		ls, rs := n.l.print(r), n.r.print(r)
		if prec(n.l) < n.op.prec {
			ls = "(" + ls + ")"
		}
		if prec(n.r) <= n.op.prec {
			rs = "(" + rs + ")"
		}
		return ls + ws(r) + n.op.sym + ws(r) + rs
	}
}

// the conventional reading of the AST, in the symbolic operators' notation; raw is the printed text (needed for call arguments)
func (n *node) tree(printed func(*node) string) string {
	switch n.kind {
	case 0:
		return n.text
	case 1:
		return "[" + n.un + n.text + "]"
	case 3:
		return "[" + n.un + n.l.tree(printed) + "]"
	case 4:
		return n.name + "{" + printed(n) + "}"
	case 5:
		return n.l.tree(printed)
	default:
		return "(" + n.l.tree(printed) + n.op.sym + n.r.tree(printed) + ")"
	}
}

var junkAlpha = []byte("12ab()+-*/^!=<>|&e ,f%$.")

// expressions rejected while operators and operands are pending, and junk: run first on the evaluator that is then reused
var badPre = []string{"1-g(2)", "2*(3- - -1)", "1+2*(3-zz(4", "a*(b+!!c)", "((1+", "1-2-3-q(", "-(-(-g()))", "2^3^x(1)"}

func pre(r *hx.Rand) string {
	if !r.Chance(1, 3) {
		return ""
	}
	if r.Bool() {
		return " " + hx.Hex(badPre[r.Intn(len(badPre))])
	}
	b := make([]byte, r.Range(1, 10))
	for j := range b {
		b[j] = junkAlpha[r.Intn(len(junkAlpha)-3)]
	}
	return " " + hx.Hex(string(b))
}

func gen(r *hx.Rand, n int) []string {
	var out []string
	for i := 0; i < n; i++ {
		switch {
		case i%10 < 4: // printed AST, symbolic. Call arguments are compared as raw text, so they are printed without layout noise.
			a := genAST(r, r.Range(1, 5))
			lr := hx.NewRand(r.U64())
			text := a.print(lr)
			// expected tree: call arguments are the raw text between the call's parentheses
			lr2 := *lr
			_ = lr2
			exp := expectedTree(a, text)
			if exp == "" {
				out = append(out, "sym "+hx.Hex(text)+" -"+pre(r))
			} else {
				out = append(out, "sym "+hx.Hex(text)+" "+hx.Hex(exp)+pre(r))
			}
		case i%10 < 7: // arbitrary strings, symbolic
			ln := r.Intn(14)
			b := make([]byte, ln)
			for j := range b {
				b[j] = junkAlpha[r.Intn(len(junkAlpha)-3)]
			}
			out = append(out, "sym "+hx.Hex(string(b))+" -"+pre(r))
		case i%10 < 9: // value level
			out = append(out, fmt.Sprintf("val %d %d", r.Intn(1<<30), r.Range(1, 4)))
		default: // robustness of the real evaluators
			ln := r.Intn(24)
			b := make([]byte, ln)
			for j := range b {
				if r.Chance(1, 12) {
					b[j] = byte(r.Intn(256))
				} else {
					b[j] = junkAlpha[r.Intn(len(junkAlpha))]
				}
			}
			out = append(out, "rob "+hx.Hex(string(b)))
		}
	}
	return out
}

// expectedTree returns the conventional tree of a printed AST when call arguments can be located textually: the AST is printed
// again without whitespace inside calls only if the layout printer produced the same call text; to keep this simple the
// expectation is produced for ASTs whose calls have layout-free arguments, which the generator guarantees by printing calls compactly.
func expectedTree(a *node, _ string) string {
	return a.tree(func(c *node) string {
		parts := make([]string, len(c.args))
		for i, x := range c.args {
			parts[i] = x.print(nil)
		}
		return strings.Join(parts, ",")
	})
}

// refCall is the meaning of abs/max/min on the two value types (a boolean argument counts as 1 or 0, as the library's
// argument coercion has it), written here and not taken from the library's function table
func refCall(name string, vs []any) (any, error) {
	isFixed := false
	nums := make([]float64, len(vs))
	fx := make([]f64.Int[fixed.D4], len(vs))
	for i, v := range vs {
		switch t := v.(type) {
		case f64.Int[fixed.D4]:
			isFixed = true
			fx[i] = t
		case float64:
			nums[i] = t
		case bool:
			if t {
				nums[i] = 1
				fx[i] = f64.From[fixed.D4](1)
			}
		default:
			return nil, fmt.Errorf("not a number")
		}
	}
	for _, v := range vs { // booleans among fixed-point values
		if _, ok := v.(bool); ok && refFixedMode {
			isFixed = true
		}
	}
	if isFixed || refFixedMode {
		r := fx[0]
		const one = 10000 // D4
		viaFloat := func(f func(float64) float64) (any, error) {
			y := f(f64.As[fixed.D4, float64](r))
			if math.IsNaN(y) || math.IsInf(y, 0) || math.Abs(y) > 1e14 {
				refOutOfDomain = true // e.g. log10(-15): the fixed-point image of NaN/Inf is platform-defined; the case is not judged
			}
			return f64.From[fixed.D4](y), nil
		}
		switch name {
		case "abs":
			if r < 0 {
				r = -r
			}
		case "max":
			if fx[1] > r {
				r = fx[1]
			}
		case "min":
			if fx[1] < r {
				r = fx[1]
			}
		case "floor": // the greatest whole number <= r (NOT truncation: floor(-1.5) = -2)
			q := r / one
			if r < 0 && r%one != 0 {
				q--
			}
			r = q * one
		case "ceil": // the least whole number >= r
			q := r / one
			if r > 0 && r%one != 0 {
				q++
			}
			r = q * one
		case "round": // nearest whole number, halves away from zero
			if r >= 0 {
				r = (r + one/2) / one * one
			} else {
				r = -((-r + one/2) / one * one)
			}
		case "sqrt":
			return viaFloat(math.Sqrt)
		case "cbrt":
			return viaFloat(math.Cbrt)
		case "exp":
			return viaFloat(math.Exp)
		case "exp2":
			return viaFloat(math.Exp2)
		case "log":
			return viaFloat(math.Log)
		case "log10":
			return viaFloat(math.Log10)
		case "log1p":
			return viaFloat(func(x float64) float64 { return math.Log(x + 1) })
		}
		return r, nil
	}
	switch name {
	case "abs":
		return math.Abs(nums[0]), nil
	case "max":
		return math.Max(nums[0], nums[1]), nil
	case "min":
		return math.Min(nums[0], nums[1]), nil
	case "floor":
		return math.Floor(nums[0]), nil
	case "ceil":
		return math.Ceil(nums[0]), nil
	case "round":
		return math.Round(nums[0]), nil
	case "sqrt":
		return math.Sqrt(nums[0]), nil
	case "cbrt":
		return math.Cbrt(nums[0]), nil
	case "exp":
		return math.Exp(nums[0]), nil
	case "exp2":
		return math.Exp2(nums[0]), nil
	case "log":
		return math.Log(nums[0]), nil
	case "log10":
		return math.Log10(nums[0]), nil
	default: // log1p
		return math.Log(nums[0] + 1), nil
	}
}

// truthy is the condition of if(): a number other than zero, or true
func truthy(v any) (bool, error) {
	switch t := v.(type) {
	case f64.Int[fixed.D4]:
		return t != 0, nil
	case float64:
		return t != 0, nil
	case bool:
		return t, nil
	}
	return false, fmt.Errorf("not a condition")
}

var refFixedMode bool

// refOutOfDomain: the reference evaluation passed through a value with no fixed-point meaning (NaN, infinity, beyond the range)
var refOutOfDomain bool

// ---- value level: AST over numeric literals evaluated by the library operators
func refEval(a *node, ops map[string]*eval.Operator, lit func(string) (any, error)) (any, error) {
	switch a.kind {
	case 0:
		return lit(a.text)
	case 1:
		v, err := lit(a.text)
		if err != nil {
			return nil, err
		}
		return ops[a.un].EvaluateUnary(v)
	case 3:
		v, err := refEval(a.l, ops, lit)
		if err != nil {
			return nil, err
		}
		return ops[a.un].EvaluateUnary(v)
	case 5:
		return refEval(a.l, ops, lit)
	case 4:
		if a.name == "if" { // only the chosen branch is evaluated
			c, err := refEval(a.args[0], ops, lit)
			if err != nil {
				return nil, err
			}
			t, err := truthy(c)
			if err != nil {
				return nil, err
			}
			if t {
				return refEval(a.args[1], ops, lit)
			}
			return refEval(a.args[2], ops, lit)
		}
		vs := make([]any, len(a.args))
		for i, x := range a.args {
			v, err := refEval(x, ops, lit)
			if err != nil {
				return nil, err
			}
			vs[i] = v
		}
		return refCall(a.name, vs)
	case 2:
		l, err := refEval(a.l, ops, lit)
		if err != nil {
			return nil, err
		}
		r, err := refEval(a.r, ops, lit)
		if err != nil {
			return nil, err
		}
		return ops[a.op.sym].Evaluate(l, r)
	}
	return nil, fmt.Errorf("unsupported")
}

func genNumAST(r *hx.Rand, depth int) *node {
	if depth <= 0 || r.Chance(1, 4) {
		t := fmt.Sprint(r.Intn(20))
		if r.Chance(1, 3) {
			t = fmt.Sprintf("%d.%d", r.Intn(10), r.Intn(100))
		}
		if r.Chance(1, 8) {
			t = "0"
		}
		if r.Chance(1, 8) {
			t = []string{"1e-2", "5e-1", "12e-1", "25e-1", "2.5e-1"}[r.Intn(5)]
		}
		if r.Chance(1, 5) {
			return &node{kind: 1, text: t, un: unOps[r.Intn(2)]}
		}
		return &node{kind: 0, text: t}
	}
	switch r.Intn(9) {
	case 0:
		return &node{kind: 3, un: unOps[r.Intn(2)], l: genNumAST(r, depth-1)}
	case 1:
		return &node{kind: 5, l: genNumAST(r, depth-1)}
	case 2: // a call: its argument text is parsed again from its own first byte
		switch r.Intn(4) {
		case 0:
			return &node{kind: 4, name: "abs", args: []*node{genNumAST(r, depth-2)}}
		case 1:
			return &node{kind: 4, name: []string{"max", "min"}[r.Intn(2)], args: []*node{genNumAST(r, depth-2), genNumAST(r, depth-2)}}
		case 2: // the rounding functions (negative and half-way arguments matter) and the ones computed through float64
			nm := []string{"floor", "ceil", "round", "floor", "ceil", "round", "sqrt", "cbrt", "exp", "exp2", "log", "log10", "log1p"}[r.Intn(13)]
			arg := genNumAST(r, depth-2)
			if r.Chance(1, 3) { // k + 1/2 and other fractions, both signs
				t := fmt.Sprintf("%d.%s", r.Intn(4), []string{"5", "5", "25", "75", "4999", "5001", "0"}[r.Intn(7)])
				arg = &node{kind: 0, text: t}
				if r.Bool() {
					arg = &node{kind: 1, text: t, un: "-"}
				}
			}
			return &node{kind: 4, name: nm, args: []*node{arg}}
		default:
			return &node{kind: 4, name: "if", args: []*node{genNumAST(r, depth-2), genNumAST(r, depth-2), genNumAST(r, depth-2)}}
		}
	default:
		o := binOps[r.Intn(len(binOps))]
		if o.sym == "^" && r.Chance(2, 3) {
			o = binOps[8]
		}
		return &node{kind: 2, op: o, l: genNumAST(r, depth-1), r: genNumAST(r, depth-1)}
	}
}

// canon renders a result; a bare literal comes back from Evaluate as its text and is read as a number first
func canonFixed(v any) string {
	if s, ok := v.(string); ok {
		if f, err := f64.FromString[fixed.D4](s); err == nil {
			return f.String()
		}
	}
	return fmt.Sprint(v)
}

func canonFloat(v any) string {
	if s, ok := v.(string); ok {
		var f float64
		if _, err := fmt.Sscan(s, &f); err == nil {
			return fmt.Sprint(f)
		}
	}
	return fmt.Sprint(v)
}

func valCase(seed, depth int) string {
	r := hx.NewRand(uint64(seed))
	a := genNumAST(r, depth)
	compact := a.print(nil)
	spaced := a.print(hx.NewRand(uint64(seed) + 7))
	var flags []string
	for _, dz := range []bool{false, true} {
		// fixed point
		fe := eval.NewFixedEvaluator[fixed.D4](nil, dz)
		ops := map[string]*eval.Operator{}
		for _, o := range fe.Operators {
			ops[o.Symbol] = o
		}
		refFixedMode = true
		refOutOfDomain = false
		want, werr := refEval(a, ops, func(s string) (any, error) { return f64.FromString[fixed.D4](s) })
		got1, e1 := fe.Evaluate(compact)
		got2, e2 := fe.Evaluate(spaced) // reused evaluator, other layout
		got3, e3 := eval.NewFixedEvaluator[fixed.D4](nil, dz).Evaluate(spaced)
		_, _ = fe.Evaluate("((1+") // a failed parse in between must not disturb the next evaluation
		got4, e4 := fe.Evaluate(compact)
		ok := (werr != nil) == (e1 != nil) && (e1 != nil) == (e2 != nil) && (e2 != nil) == (e3 != nil) && (e3 != nil) == (e4 != nil)
		if refOutOfDomain {
			ok = true // outside the domain the property speaks about
		} else if ok && werr == nil {
			ok = canonFixed(want) == canonFixed(got1) && canonFixed(got1) == canonFixed(got2) && canonFixed(got2) == canonFixed(got3) && canonFixed(got3) == canonFixed(got4)
		}
		if !ok && os.Getenv("VERIF_DEBUG") != "" {
			fmt.Fprintf(os.Stderr, "fixed dz=%v %q: want %v (%v); got %v (%v) | %v (%v) | %v (%v) | %v (%v)\n", dz, compact, want, werr, got1, e1, got2, e2, got3, e3, got4, e4)
		}
		flags = append(flags, "fx"+hx.B2i(dz)+"="+hx.B2i(ok))
		// floating point
		fl := eval.NewFloatEvaluator[float64](nil, dz)
		fops := map[string]*eval.Operator{}
		for _, o := range fl.Operators {
			fops[o.Symbol] = o
		}
		refFixedMode = false
		fwant, fwerr := refEval(a, fops, func(s string) (any, error) {
			var f float64
			_, err := fmt.Sscan(s, &f)
			return f, err
		})
		fgot1, fe1 := fl.Evaluate(compact)
		fgot2, fe2 := fl.Evaluate(spaced)
		fok := (fwerr != nil) == (fe1 != nil) && (fe1 != nil) == (fe2 != nil)
		if fok && fwerr == nil {
			fok = canonFloat(fwant) == canonFloat(fgot1) && canonFloat(fgot1) == canonFloat(fgot2)
		}
		flags = append(flags, "fl"+hx.B2i(dz)+"="+hx.B2i(fok))
	}
	return hx.Hex(compact) + " " + strings.Join(flags, " ")
}

func run(c string) (obs string) {
	defer func() {
		if e := recover(); e != nil {
			obs = "P"
		}
	}()
	f := strings.Fields(c)
	switch f[0] {
	case "sym":
		ev := symbolic()
		if len(f) > 3 { // an earlier evaluation on the same evaluator, whatever its outcome, must not influence this one
			func() {
				defer func() { _ = recover() }()
				_, _ = ev.Evaluate(hx.UnHex(f[3]))
			}()
		}
		v, err := ev.Evaluate(hx.UnHex(f[1]))
		if err != nil {
			return "E"
		}
		// a reused evaluator must give the same answer
		v2, err2 := ev.Evaluate(hx.UnHex(f[1]))
		if err2 != nil || fmt.Sprint(v2) != fmt.Sprint(v) {
			return "REUSE-DIFFERS"
		}
		return "V " + hx.Hex(fmt.Sprint(v))
	case "val":
		return valCase(hx.Atoi(f[1]), hx.Atoi(f[2]))
	case "rob":
		s := hx.UnHex(f[1])
		res := "ok"
		func() {
			defer func() {
				if e := recover(); e != nil {
					res = "P"
				}
			}()
			_, _ = eval.NewFixedEvaluator[fixed.D4](nil, true).Evaluate(s)
			_, _ = eval.NewFloatEvaluator[float64](nil, false).Evaluate(s)
		}()
		return res
	}
	return "BADCASE"
}

func main() { hx.Main(gen, run) }
