// C19 harness: tar and zip extraction into <base>/dst, next to <base>/outside/secret and with the working directory <base>/cwd.
//
// case: "<tar|zip> <mask octal>;pre <d|f|s> <path> [<abs 0|1> <target>];e <r|d|s|l> <name> <mode octal> <payload> <abs 0|1> <target|->;..."
// pre lines put a directory, file or symbolic link below base before extracting; e lines are the archive's entries in order
// (regular file, directory, symbolic link, hard link). Paths use the names below with "." and ".."; an absolute link target is
// taken below base (the modelled world). Observation: "ok=<0|1>|<path>=<D:mode | F:group:payload:mode | L:a|r:target>,..." -
// the complete tree under base, not following links; files that share an inode carry the same group (their smallest path).
package main

import (
	"archive/tar"
	"archive/zip"
	"bytes"
	"fmt"
	"os"
	"os/signal"
	"path/filepath"
	"sort"
	"strings"
	"syscall"

	xtar "github.com/richardwilkes/toolbox/xio/fs/tar"
	xzip "github.com/richardwilkes/toolbox/xio/fs/zip"
	"verifharness/hx"
)

type ent struct {
	typ     string
	name    string
	mode    int64
	payload string
	abs     bool
	target  string
}

func linkText(base string, abs bool, target string) string {
	if abs {
		return filepath.Join(base, target) // kept below base: the modelled world
	}
	return target
}

func buildTar(base string, es []ent) (*tar.Reader, error) {
	var buf bytes.Buffer
	w := tar.NewWriter(&buf)
	for _, e := range es {
		h := &tar.Header{Name: e.name, Mode: e.mode, Format: tar.FormatPAX}
		body := []byte{}
		switch e.typ {
		case "r", "p", "k", "v": // (the special-mode letters are a zip matter; in a tar they are plain regular files)
			h.Typeflag = tar.TypeReg
			body = []byte("payload-" + e.payload)
			h.Size = int64(len(body))
		case "d":
			h.Typeflag = tar.TypeDir
		case "s":
			h.Typeflag = tar.TypeSymlink
			h.Linkname = linkText(base, e.abs, e.target)
		case "l":
			h.Typeflag = tar.TypeLink
			h.Linkname = e.target
		case "q": // a type the extractor does nothing for: its path is checked, nothing is created (not even its parents)
			h.Typeflag = []byte{tar.TypeFifo, tar.TypeChar, tar.TypeBlock}[int(e.mode)%3]
		}
		if err := w.WriteHeader(h); err != nil {
			return nil, err
		}
		if _, err := w.Write(body); err != nil {
			return nil, err
		}
	}
	if err := w.Close(); err != nil {
		return nil, err
	}
	return tar.NewReader(&buf), nil
}

func buildZip(base string, es []ent) (*zip.Reader, error) {
	var buf bytes.Buffer
	w := zip.NewWriter(&buf)
	for _, e := range es {
		h := &zip.FileHeader{Name: e.name, Method: zip.Store}
		body := []byte{}
		switch e.typ {
		case "r":
			h.SetMode(os.FileMode(e.mode))
			body = []byte("payload-" + e.payload)
		case "p", "k", "v":
			// an entry that carries data but whose recorded unix mode says named pipe / socket / device: the extractor
			// writes it like a regular file (permission bits only), so it must be confined like one
			sp := map[string]os.FileMode{"p": os.ModeNamedPipe, "k": os.ModeSocket, "v": os.ModeDevice | os.ModeCharDevice}[e.typ]
			h.SetMode(sp | os.FileMode(e.mode))
			body = []byte("payload-" + e.payload)
		case "d":
			h.SetMode(os.ModeDir | os.FileMode(e.mode))
			if !strings.HasSuffix(h.Name, "/") {
				h.Name += "/"
			}
		case "s":
			h.SetMode(os.ModeSymlink | 0o777)
			body = []byte(linkText(base, e.abs, e.target))
		default:
			continue
		}
		f, err := w.CreateHeader(h)
		if err != nil {
			return nil, err
		}
		if _, err = f.Write(body); err != nil {
			return nil, err
		}
	}
	if err := w.Close(); err != nil {
		return nil, err
	}
	return zip.NewReader(bytes.NewReader(buf.Bytes()), int64(buf.Len()))
}

func dump(base string) string {
	type item struct{ path, desc string }
	var items []item
	groups := map[uint64]string{}
	var files []struct {
		path string
		ino  uint64
		rest string
	}
	_ = filepath.Walk(base, func(p string, fi os.FileInfo, err error) error {
		if err != nil || p == base {
			return nil
		}
		rel := strings.TrimPrefix(p, base+"/")
		switch {
		case fi.Mode()&os.ModeSymlink != 0:
			t, _ := os.Readlink(p)
			if strings.HasPrefix(t, base+"/") || t == base {
				t = "a:" + strings.TrimPrefix(strings.TrimPrefix(t, base), "/")
			} else {
				t = "r:" + t
			}
			items = append(items, item{rel, "L:" + t})
		case fi.IsDir():
			items = append(items, item{rel, fmt.Sprintf("D:%o", fi.Mode().Perm())})
		default:
			b, _ := os.ReadFile(p)
			ino := fi.Sys().(*syscall.Stat_t).Ino
			if g, ok := groups[ino]; !ok || rel < g {
				groups[ino] = rel
			}
			files = append(files, struct {
				path string
				ino  uint64
				rest string
			}{rel, ino, fmt.Sprintf("%s:%o", strings.TrimPrefix(string(b), "payload-"), fi.Mode().Perm())})
		}
		return nil
	})
	for _, f := range files {
		items = append(items, item{f.path, "F:" + groups[f.ino] + ":" + f.rest})
	}
	sort.Slice(items, func(i, j int) bool { return items[i].path < items[j].path })
	parts := make([]string, len(items))
	for i, it := range items {
		parts[i] = it.path + "=" + it.desc
	}
	return strings.Join(parts, ",")
}

var umaskSet = false

func run(c string) (obs string) {
	defer func() {
		if e := recover(); e != nil {
			obs = "P"
		}
	}()
	if !umaskSet {
		syscall.Umask(0o022)
		umaskSet = true
	}
	tmp, err := os.MkdirTemp("", "verif-c19-")
	if err != nil {
		return "HARNESS-ERROR"
	}
	defer os.RemoveAll(tmp)
	base, _ := filepath.EvalSymlinks(tmp)
	for _, d := range []string{"dst", "outside", "cwd", "dstx"} { // dstx: a sibling whose name starts with the destination's
		_ = os.Mkdir(filepath.Join(base, d), 0o755)
	}
	_ = os.WriteFile(filepath.Join(base, "outside", "secret"), []byte("payload-0"), 0o644)
	_ = os.WriteFile(filepath.Join(base, "cwd", "f"), []byte("payload-1"), 0o644)
	_ = os.WriteFile(filepath.Join(base, "dstx", "secret"), []byte("payload-3"), 0o644)
	old, _ := os.Getwd()
	_ = os.Chdir(filepath.Join(base, "cwd"))
	defer os.Chdir(old)
	ops := strings.Split(c, ";")
	hd := strings.Fields(ops[0])
	if hd[0] == "corrupt" { // a stored zip entry whose bytes no longer match its checksum: extraction must report an error
		var buf bytes.Buffer
		w := zip.NewWriter(&buf)
		fw, _ := w.CreateHeader(&zip.FileHeader{Name: "a/data", Method: zip.Store})
		_, _ = fw.Write([]byte("payload-" + hd[1] + "-some-more-bytes"))
		_ = w.Close()
		raw := buf.Bytes()
		if i := bytes.Index(raw, []byte("payload-")); i >= 0 {
			raw[i+hx.Atoi(hd[2])%(8+len(hd[1]))] ^= 0x20
		}
		zr, zerr := zip.NewReader(bytes.NewReader(raw), int64(len(raw)))
		if zerr != nil {
			return "ok=0 (unreadable)"
		}
		return "ok=" + hx.B2i(xzip.Extract(zr, filepath.Join(base, "dst")) == nil)
	}
	if hd[0] == "efbig" { // an entry that cannot be written in full (file size limit): extraction must report an error
		return runTooBig(base, hd)
	}
	var mask os.FileMode
	fmt.Sscanf(hd[1], "%o", &mask)
	var es []ent
	for _, o := range ops[1:] {
		f := strings.Fields(o)
		if len(f) == 0 {
			continue
		}
		switch f[0] {
		case "pre":
			p := filepath.Join(base, f[2])
			_ = os.MkdirAll(filepath.Dir(p), 0o755)
			switch f[1] {
			case "d":
				_ = os.MkdirAll(p, 0o755)
			case "f":
				_ = os.WriteFile(p, []byte("payload-2"), 0o644)
			case "s":
				_ = os.Symlink(linkText(base, f[3] == "1", f[4]), p)
			}
		case "e":
			var mode int64
			fmt.Sscanf(f[3], "%o", &mode)
			t := f[6]
			if t == "-" {
				t = ""
			}
			es = append(es, ent{typ: f[1], name: f[2], mode: mode, payload: f[4], abs: f[5] == "1", target: t})
		default:
			return "BADCASE"
		}
	}
	ok := "1"
	if hd[0] == "tar" {
		tr, berr := buildTar(base, es)
		if berr != nil {
			return "ARCHIVE-ERROR " + berr.Error()
		}
		if err = xtar.ExtractWithMask(tr, filepath.Join(base, "dst"), mask); err != nil {
			ok = "0"
		}
	} else {
		zr, berr := buildZip(base, es)
		if berr != nil {
			return "ARCHIVE-ERROR " + berr.Error()
		}
		if err = xzip.ExtractWithMask(zr, filepath.Join(base, "dst"), mask); err != nil {
			ok = "0"
		}
	}
	return "ok=" + ok + "|" + dump(base)
}

func runTooBig(base string, hd []string) string {
	signal.Ignore(syscall.SIGXFSZ)
	var oldLim syscall.Rlimit
	_ = syscall.Getrlimit(syscall.RLIMIT_FSIZE, &oldLim)
	lim := oldLim
	lim.Cur = uint64(hx.Atoi(hd[2]))
	size := hx.Atoi(hd[3])
	var buf bytes.Buffer
	body := bytes.Repeat([]byte("x"), size)
	var err error
	if hd[1] == "tar" {
		w := tar.NewWriter(&buf)
		_ = w.WriteHeader(&tar.Header{Name: "a/big", Mode: 0o644, Typeflag: tar.TypeReg, Size: int64(size)})
		_, _ = w.Write(body)
		_ = w.Close()
		_ = syscall.Setrlimit(syscall.RLIMIT_FSIZE, &lim)
		err = xtar.Extract(tar.NewReader(&buf), filepath.Join(base, "dst"))
	} else {
		w := zip.NewWriter(&buf)
		f, _ := w.CreateHeader(&zip.FileHeader{Name: "a/big", Method: zip.Store})
		_, _ = f.Write(body)
		_ = w.Close()
		zr, _ := zip.NewReader(bytes.NewReader(buf.Bytes()), int64(buf.Len()))
		_ = syscall.Setrlimit(syscall.RLIMIT_FSIZE, &lim)
		err = xzip.Extract(zr, filepath.Join(base, "dst"))
	}
	_ = syscall.Setrlimit(syscall.RLIMIT_FSIZE, &oldLim)
	fi, serr := os.Stat(filepath.Join(base, "dst", "a", "big"))
	complete := serr == nil && fi.Size() == int64(size)
	return fmt.Sprintf("ok=%s complete=%s", hx.B2i(err == nil), hx.B2i(complete))
}

var names = []string{"a", "b", "c", "lnk", "x"}

func genPath(r *hx.Rand, escapes bool) string {
	var p []string
	if escapes && r.Chance(1, 12) {
		p = append(p, "..")
	}
	for n := r.Range(1, 3); n > 0; n-- {
		switch r.Intn(12) {
		case 0:
			p = append(p, ".")
		case 1:
			if len(p) > 0 && p[len(p)-1] != ".." {
				p = append(p, "..")
			} else {
				p = append(p, names[r.Intn(len(names))])
			}
		default:
			p = append(p, names[r.Intn(len(names))])
		}
	}
	s := strings.Join(p, "/")
	if r.Chance(1, 15) {
		s = "/" + s
	}
	return s
}

// link targets: inside the destination, outside it, absolute (below base) or relative (at most as many ".." as stay below base)
func genTarget(r *hx.Rand, depth int) (bool, string) {
	if r.Chance(1, 3) {
		return true, []string{"outside", "outside/secret", "dst", "dst/a", "cwd", "dst/b/c", "nowhere", "dstx", "dstx/secret"}[r.Intn(9)]
	}
	var p []string
	for k := r.Intn(depth + 1); k > 0; k-- { // never above base: that would leave the modelled world
		p = append(p, "..")
	}
	p = append(p, []string{"outside", "outside/secret", "a", "b", "a/b", "x", "nowhere/deep", "dst/a", ".", "dstx", "dstx/secret"}[r.Intn(11)])
	return false, strings.Join(p, "/")
}

// the letter of an entry that carries data: usually a regular file, sometimes one recorded with a special file mode
func regLetter(r *hx.Rand) string {
	if r.Chance(1, 4) {
		return []string{"p", "k", "v"}[r.Intn(3)]
	}
	return "r"
}

func gen(r *hx.Rand, n int) []string {
	var out []string
	for i := 0; i < n; i++ {
		kind := "tar"
		if i%3 == 2 {
			kind = "zip"
		}
		if i%50 == 49 {
			limit := []int{0, 1000, 5000, 100000}[r.Intn(4)]
			out = append(out, fmt.Sprintf("efbig %s %d %d", kind, limit, []int{10, 3000, 70000}[r.Intn(3)]))
			continue
		}
		if i%50 == 48 {
			out = append(out, fmt.Sprintf("corrupt %d %d", 10+r.Intn(80), r.Intn(30)))
			continue
		}
		ops := []string{fmt.Sprintf("%s %s", kind, []string{"777", "777", "755", "700"}[r.Intn(4)])}
		if i%4 == 1 {
			// composed attempts: a link planted by the archive (or already there), then an entry of some type that goes through it
			link := names[r.Intn(len(names))]
			abs, target := true, []string{"outside", "dstx", "cwd", "outside/secret", "dstx/secret"}[r.Intn(5)]
			if r.Bool() {
				abs, target = false, "../"+target
			}
			if kind == "tar" && r.Chance(1, 3) { // an ignored entry (FIFO, device) under the name that is about to become a link
				ops = append(ops, fmt.Sprintf("e q %s/%s %d 0 0 -", link, []string{"x", "made", "deep"}[r.Intn(3)], 644+r.Intn(3)))
			}
			if r.Chance(1, 3) {
				ops = append(ops, fmt.Sprintf("pre s dst/%s %s %s", link, hx.B2i(abs), target))
			} else {
				ops = append(ops, fmt.Sprintf("e s %s 777 0 %s %s", link, hx.B2i(abs), target))
			}
			other := names[r.Intn(len(names))]
			for k := r.Range(1, 3); k > 0; k-- {
				switch x := r.Intn(6); {
				case x == 0:
					ops = append(ops, fmt.Sprintf("e %s %s/%s 644 %d 0 -", regLetter(r), link, []string{"x", "secret", "a/b"}[r.Intn(3)], 10+r.Intn(80)))
				case x == 1:
					ops = append(ops, fmt.Sprintf("e d %s/%s 755 0 0 -", link, []string{"made", "made/deep", "a"}[r.Intn(3)]))
				case x == 2:
					ops = append(ops, fmt.Sprintf("e s %s/%s 777 0 0 ../x", link, []string{"l", "c"}[r.Intn(2)]))
				case x == 3 && kind == "tar":
					ops = append(ops, fmt.Sprintf("e l %s 644 0 0 %s/%s", other, link, []string{"secret", "f", "x"}[r.Intn(3)]))
					ops = append(ops, fmt.Sprintf("e r %s 644 %d 0 -", other, 10+r.Intn(80)))
				case x == 4:
					ops = append(ops, fmt.Sprintf("e %s %s 644 %d 0 -", regLetter(r), link, 10+r.Intn(80)))
				default:
					ops = append(ops, fmt.Sprintf("e r %s 600 %d 0 -", other, 10+r.Intn(80)))
				}
			}
			out = append(out, strings.Join(ops, ";"))
			continue
		}
		free := append([]string(nil), names...)
		for k := r.Intn(3); k > 0; k-- { // pre-existing content of the destination, each under its own name
			j := r.Intn(len(free))
			nm := free[j]
			free = append(free[:j], free[j+1:]...)
			switch r.Intn(3) {
			case 0:
				ops = append(ops, "pre d dst/"+nm)
			case 1:
				ops = append(ops, "pre f dst/"+nm)
			default:
				abs, t := genTarget(r, 1)
				ops = append(ops, fmt.Sprintf("pre s dst/%s %s %s", nm, hx.B2i(abs), t))
			}
		}
		var fileNames []string
		for k := r.Range(1, 6); k > 0; k-- {
			name := genPath(r, true)
			depth := 0 // depth below base of the directory that will hold the entry (lexically)
			for _, cpt := range strings.Split(strings.Trim(name, "/"), "/") {
				switch cpt {
				case ".", "":
				case "..":
					if depth > 0 {
						depth--
					}
				default:
					depth++
				}
			}
			if kind == "tar" && r.Chance(1, 12) {
				ops = append(ops, fmt.Sprintf("e q %s %d 0 0 -", name, 644+r.Intn(3)))
				continue
			}
			switch x := r.Intn(10); {
			case x < 4:
				ops = append(ops, fmt.Sprintf("e %s %s %s %d 0 -", regLetter(r), name, []string{"644", "600", "755", "640"}[r.Intn(4)], 10+r.Intn(80)))
				fileNames = append(fileNames, name)
			case x < 6:
				ops = append(ops, fmt.Sprintf("e d %s %s 0 0 -", name, []string{"755", "700", "750"}[r.Intn(3)]))
			case x < 9 || kind == "zip":
				abs, t := genTarget(r, depth)
				ops = append(ops, fmt.Sprintf("e s %s 777 0 %s %s", name, hx.B2i(abs), t))
			default:
				t := []string{"a", "b", "a/b", "lnk", "../outside/secret", "f", "x", "/a", "../cwd/f", "lnk/secret"}[r.Intn(10)]
				if len(fileNames) > 0 && r.Chance(2, 3) { // usually a file recorded earlier in the same archive
					t = fileNames[r.Intn(len(fileNames))]
				}
				ops = append(ops, fmt.Sprintf("e l %s 644 0 0 %s", name, t))
			}
		}
		out = append(out, strings.Join(ops, ";"))
	}
	return out
}

func main() { hx.Main(gen, run) }
