// C18 harness: geom.Rect / geom.Point / geom.Matrix / poly.Contour / poly.Polygon on int and exactly representable float64 inputs.
package main

import (
	"fmt"
	"strings"

	"github.com/richardwilkes/toolbox/xmath"
	"github.com/richardwilkes/toolbox/xmath/geom"
	"github.com/richardwilkes/toolbox/xmath/geom/poly"
	"verifharness/hx"
)

// dyadic value: multiple of 2^-k with small magnitude, many collisions so that abutting/equal edges occur
func dy(r *hx.Rand, k uint, span int) float64 {
	return float64(r.Range(-span*(1<<k), span*(1<<k))) / float64(uint(1)<<k)
}

// sz: a size in 1..hi, or (1 time in 10) zero or negative
func sz(r *hx.Rand, hi int) int {
	if r.Chance(1, 10) {
		return r.Range(-2, 0)
	}
	return r.Range(1, hi)
}

func genRect(r *hx.Rand, isInt bool) [4]float64 {
	if isInt {
		v := [4]float64{float64(r.Range(-6, 12)), float64(r.Range(-6, 12)), float64(sz(r, 12)), float64(sz(r, 12))}
		if r.Chance(1, 12) {
			v[0] *= 100000
			v[2] *= 1000000
		}
		return v
	}
	switch r.Intn(4) {
	case 0: // sub-unit sizes
		return [4]float64{dy(r, 3, 4), dy(r, 3, 4), float64(sz(r, 12)) / 8, float64(sz(r, 12)) / 8}
	case 1:
		return [4]float64{dy(r, 6, 1000), dy(r, 6, 1000), dy(r, 6, 1000), dy(r, 6, 1000)}
	default:
		return [4]float64{dy(r, 2, 6), dy(r, 2, 6), float64(sz(r, 40)) / 4, float64(sz(r, 40)) / 4}
	}
}

func fmtRat4(v [4]float64) string {
	return hx.RatF(v[0]) + " " + hx.RatF(v[1]) + " " + hx.RatF(v[2]) + " " + hx.RatF(v[3])
}

func gen(r *hx.Rand, n int) []string {
	var out []string
	for i := 0; i < n; i++ {
		switch {
		case i%10 < 6:
			isInt := r.Bool()
			a := genRect(r, isInt)
			var b [4]float64
			switch r.Intn(6) {
			case 0:
				b = a
			case 1: // nested / abutting variations of a
				b = a
				j := r.Intn(4)
				if isInt {
					b[j] += float64(r.Range(-2, 2))
				} else {
					b[j] += float64(r.Range(-4, 4)) / 8
				}
			case 2: // abutting to the right
				b = a
				b[0] = a[0] + a[2]
			default:
				b = genRect(r, isInt)
			}
			var px, py float64
			if isInt {
				px, py = float64(r.Range(-7, 25)), float64(r.Range(-7, 25))
			} else {
				px, py = dy(r, 3, 12), dy(r, 3, 12)
			}
			if r.Chance(1, 3) { // on a corner or edge of a or b
				src := a
				if r.Bool() {
					src = b
				}
				px = src[0]
				if r.Bool() {
					px += src[2]
				}
				py = src[1]
				if r.Bool() {
					py += src[3]
				}
			}
			k := "f"
			if isInt {
				k = "i"
			}
			out = append(out, fmt.Sprintf("rect %s %s %s %s %s", k, fmtRat4(a), fmtRat4(b), hx.RatF(px), hx.RatF(py)))
		case i%10 < 8:
			var sb strings.Builder
			sb.WriteString("mat")
			for j := 0; j < 12; j++ { // m and n entries: multiples of 1/8, |.| <= 8
				sb.WriteString(" " + hx.RatF(dy(r, 3, 8)))
			}
			// tx ty sx sy angle px py
			for j := 0; j < 4; j++ {
				sb.WriteString(" " + hx.RatF(dy(r, 3, 8)))
			}
			ang := float64(r.Range(-720, 720)) / 57.29577951308232
			if r.Chance(1, 5) {
				ang = float64(r.Range(-8, 8)) * 0.7853981633974483
			}
			sb.WriteString(" " + hx.RatF(ang))
			sb.WriteString(" " + hx.RatF(dy(r, 3, 16)) + " " + hx.RatF(dy(r, 3, 16)))
			out = append(out, sb.String())
		default:
			nc := r.Range(1, 3)
			var sb strings.Builder
			fmt.Fprintf(&sb, "poly %d", nc)
			for c := 0; c < nc; c++ {
				np := r.Range(0, 7)
				if np == 1 || np == 2 {
					np = 3
				}
				fmt.Fprintf(&sb, " %d", np)
				rectilinear := r.Chance(1, 3)
				var lx, ly float64
				for p := 0; p < np; p++ {
					x, y := float64(r.Range(0, 16)), float64(r.Range(0, 16))
					if r.Chance(1, 4) {
						x, y = dy(r, 3, 8), dy(r, 3, 8)
					}
					if rectilinear && p > 0 {
						if p%2 == 1 {
							y = ly
						} else {
							x = lx
						}
					}
					lx, ly = x, y
					sb.WriteString(" " + hx.RatF(x) + " " + hx.RatF(y))
				}
			}
			px, py := float64(r.Range(-2, 36))/2+0.25, float64(r.Range(-2, 36))/2
			if r.Bool() {
				py += 0.125
			}
			sb.WriteString(" " + hx.RatF(px) + " " + hx.RatF(py))
			for j := 0; j < 6; j++ {
				sb.WriteString(" " + hx.RatF(dy(r, 3, 4)))
			}
			out = append(out, sb.String())
		}
	}
	return out
}

func rs[T xmath.Numeric](r geom.Rect[T]) string {
	return hx.RatF(float64(r.X)) + " " + hx.RatF(float64(r.Y)) + " " + hx.RatF(float64(r.Width)) + " " + hx.RatF(float64(r.Height))
}

func runRect[T xmath.Numeric](v []float64) string {
	a := geom.NewRect(T(v[0]), T(v[1]), T(v[2]), T(v[3]))
	b := geom.NewRect(T(v[4]), T(v[5]), T(v[6]), T(v[7]))
	a0, b0 := a, b
	p := geom.NewPoint(T(v[8]), T(v[9]))
	in := a.Intersect(b)
	un := a.Union(b)
	res := []string{hx.B2i(a.Empty()), hx.B2i(b.Empty()), hx.B2i(p.In(a)), hx.B2i(p.In(b)), hx.B2i(a.Contains(b)), hx.B2i(b.Contains(a)),
		hx.B2i(a.Intersects(b)), hx.B2i(b.Intersects(a)), rs(in), rs(un), hx.B2i(p.In(in)), hx.B2i(p.In(un)),
		hx.B2i(un.Contains(a)), hx.B2i(un.Contains(b)), hx.B2i(a == a0 && b == b0)}
	return strings.Join(res, " ")
}

func ps(p geom.Point[float64]) string { return hx.RatF(p.X) + " " + hx.RatF(p.Y) }

func run(c string) (obs string) {
	defer func() {
		if e := recover(); e != nil {
			obs = "PANIC"
		}
	}()
	f := strings.Fields(c)
	switch f[0] {
	case "rect":
		v := make([]float64, 10)
		for i := range v {
			v[i] = hx.ParseRat(f[2+i])
		}
		if f[1] == "i" {
			return runRect[int](v)
		}
		return runRect[float64](v)
	case "mat":
		v := make([]float64, 19)
		for i := range v {
			v[i] = hx.ParseRat(f[1+i])
		}
		m := geom.Matrix[float64]{ScaleX: v[0], SkewX: v[1], TransX: v[2], SkewY: v[3], ScaleY: v[4], TransY: v[5]}
		n := geom.Matrix[float64]{ScaleX: v[6], SkewX: v[7], TransX: v[8], SkewY: v[9], ScaleY: v[10], TransY: v[11]}
		tx, ty, sx, sy, ang := v[12], v[13], v[14], v[15], v[16]
		p := geom.NewPoint(v[17], v[18])
		s, co := xmath.Sin(ang), xmath.Cos(ang)
		mp := m.TransformPoint(p)
		res := []string{hx.RatF(s), hx.RatF(co),
			ps(m.Multiply(n).TransformPoint(p)), ps(n.TransformPoint(mp)),
			ps(m.Translate(tx, ty).TransformPoint(p)), ps(geom.NewTranslationMatrix(tx, ty).TransformPoint(mp)),
			ps(m.Scale(sx, sy).TransformPoint(p)), ps(geom.NewScaleMatrix(sx, sy).TransformPoint(mp)),
			ps(m.Rotate(ang).TransformPoint(p)), ps(geom.NewRotationMatrix(ang).TransformPoint(mp)),
			ps(geom.NewIdentityMatrix[float64]().TransformPoint(p)), ps(m.Multiply(geom.NewIdentityMatrix[float64]()).TransformPoint(p)),
			ps(geom.NewIdentityMatrix[float64]().Multiply(m).TransformPoint(p))}
		return strings.Join(res, " ")
	case "poly":
		i := 1
		nc := hx.Atoi(f[i])
		i++
		pg := make(poly.Polygon[float64], nc)
		for c := 0; c < nc; c++ {
			np := hx.Atoi(f[i])
			i++
			for p := 0; p < np; p++ {
				pg[c] = append(pg[c], geom.NewPoint(hx.ParseRat(f[i]), hx.ParseRat(f[i+1])))
				i += 2
			}
		}
		pt := geom.NewPoint(hx.ParseRat(f[i]), hx.ParseRat(f[i+1]))
		i += 2
		var mv [6]float64
		for j := range mv {
			mv[j] = hx.ParseRat(f[i+j])
		}
		m := geom.Matrix[float64]{ScaleX: mv[0], SkewX: mv[1], TransX: mv[2], SkewY: mv[3], ScaleY: mv[4], TransY: mv[5]}
		orig := pg.Clone()
		var res []string
		for _, c := range pg {
			res = append(res, hx.B2i(c.Contains(pt)), rs(c.Bounds()))
		}
		res = append(res, "|", hx.B2i(pg.Contains(pt)), hx.B2i(pg.ContainsEvenOdd(pt)), rs(pg.Bounds()), "|")
		tr := pg.Transform(m)
		for _, c := range tr {
			res = append(res, fmt.Sprint(len(c)))
			for _, p := range c {
				res = append(res, ps(p))
			}
		}
		same := len(orig) == len(pg)
		for ci := range pg {
			if len(orig[ci]) != len(pg[ci]) {
				same = false
				continue
			}
			for pi := range pg[ci] {
				if orig[ci][pi] != pg[ci][pi] {
					same = false
				}
			}
		}
		res = append(res, "|", hx.B2i(same))
		return strings.Join(res, " ")
	}
	return "BADCASE"
}

func main() { hx.Main(gen, run) }
