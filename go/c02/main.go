// C02 harness: conversions of num.Uint128 / num.Int128.
//
//	v <hi> <lo>      both types built from the components: decimal text, big.Int, float64, narrowing, and the round trips
//	                 through String/FromString, Text, JSON (encoding/json inside a struct and a slice), YAML hooks, fmt verbs, Scan
//	big <decimal>    Uint128FromBigInt / Int128FromBigInt
//	str <hex text>   Uint128FromString / Int128FromString (and ...NoCheck)
//	flt <bits>       Uint128FromFloat64 / Int128FromFloat64 of the float64 with these bits
//
// Floats cross the boundary as exact integers ("-0" for negative zero); 128-bit values as "hi:lo".
package main

import (
	"encoding/json"
	"fmt"
	"math"
	"math/big"
	"strconv"
	"strings"

	"github.com/richardwilkes/toolbox/xmath/num"
	"verifharness/hx"
)

func u64(s string) uint64 {
	v, _ := strconv.ParseUint(s, 10, 64)
	return v
}

func exactFloat(f float64) string {
	if math.IsNaN(f) {
		return "NaN"
	}
	if math.IsInf(f, 0) {
		return fmt.Sprint(f)
	}
	if f == 0 {
		if math.Signbit(f) {
			return "-0"
		}
		return "0"
	}
	b, acc := new(big.Float).SetFloat64(f).Int(nil)
	if acc != big.Exact {
		return "NONINTEGER"
	}
	return b.String()
}

func showU(u num.Uint128) string { h, l := u.Components(); return fmt.Sprintf("%d:%d", h, l) }
func showI(i num.Int128) string  { h, l := i.Components(); return fmt.Sprintf("%d:%d", h, l) }

type wrapU struct {
	A num.Uint128   `json:"a"`
	B []num.Uint128 `json:"b"`
}
type wrapI struct {
	A num.Int128   `json:"a"`
	B []num.Int128 `json:"b"`
}

func run(c string) (obs string) {
	defer func() {
		if e := recover(); e != nil {
			obs = "P"
		}
	}()
	f := strings.Fields(c)
	switch f[0] {
	case "v":
		hi, lo := u64(f[1]), u64(f[2])
		u := num.Uint128FromComponents(hi, lo)
		i := num.Int128FromComponents(hi, lo)
		// round trips (flags): every rendering must come back as the identical value
		rt := 1
		chkU := func(v num.Uint128, err error) {
			if err != nil || v != u {
				rt = 0
			}
		}
		chkI := func(v num.Int128, err error) {
			if err != nil || v != i {
				rt = 0
			}
		}
		chkU(num.Uint128FromString(u.String()))
		chkI(num.Int128FromString(i.String()))
		chkU(num.Uint128FromStringNoCheck(u.String()), nil)
		chkI(num.Int128FromStringNoCheck(i.String()), nil)
		chkU(num.Uint128FromBigInt(u.AsBigInt()), nil)
		chkI(num.Int128FromBigInt(i.AsBigInt()), nil)
		if t, err := u.MarshalText(); err == nil {
			var x num.Uint128
			chkU(x, x.UnmarshalText(t))
			_ = x.UnmarshalText(t)
			chkU(x, nil)
		} else {
			rt = 0
		}
		if t, err := i.MarshalText(); err == nil {
			var x num.Int128
			_ = x.UnmarshalText(t)
			chkI(x, nil)
		} else {
			rt = 0
		}
		if b, err := json.Marshal(wrapU{A: u, B: []num.Uint128{u, {}}}); err == nil {
			var w wrapU
			if json.Unmarshal(b, &w) != nil || w.A != u || len(w.B) != 2 || w.B[0] != u {
				rt = 0
			}
		} else {
			rt = 0
		}
		if b, err := json.Marshal(wrapI{A: i, B: []num.Int128{i, {}}}); err == nil {
			var w wrapI
			if json.Unmarshal(b, &w) != nil || w.A != i || len(w.B) != 2 || w.B[0] != i {
				rt = 0
			}
		} else {
			rt = 0
		}
		if y, err := u.MarshalYAML(); err == nil {
			var x num.Uint128
			if x.UnmarshalYAML(func(out any) error { *(out.(*string)) = y.(string); return nil }) != nil || x != u {
				rt = 0
			}
		} else {
			rt = 0
		}
		if y, err := i.MarshalYAML(); err == nil {
			var x num.Int128
			if x.UnmarshalYAML(func(out any) error { *(out.(*string)) = y.(string); return nil }) != nil || x != i {
				rt = 0
			}
		} else {
			rt = 0
		}
		var su num.Uint128
		if _, err := fmt.Sscan(u.String(), &su); err != nil || su != u {
			rt = 0
		}
		var si num.Int128
		if _, err := fmt.Sscan(i.String(), &si); err != nil || si != i {
			rt = 0
		}
		// fmt verbs denote the value: compared with big.Int built from the components by the harness itself
		bu := new(big.Int).Lsh(new(big.Int).SetUint64(hi), 64)
		bu.Or(bu, new(big.Int).SetUint64(lo))
		bi := new(big.Int).Set(bu)
		if hi>>63 == 1 {
			bi.Sub(bi, new(big.Int).Lsh(big.NewInt(1), 128))
		}
		verbs := 1
		for _, vb := range []string{"%d", "%x", "%X", "%o", "%b", "%v", "%s", "%10d", "%+d", "%040d"} {
			if fmt.Sprintf(vb, u) != fmt.Sprintf(vb, bu) || fmt.Sprintf(vb, i) != fmt.Sprintf(vb, bi) {
				verbs = 0
			}
		}
		if u.AsBigInt().Cmp(bu) != 0 || i.AsBigInt().Cmp(bi) != 0 {
			verbs = 0
		}
		// ToBigInt into a destination that already holds something large
		reuse := new(big.Int).Lsh(big.NewInt(-5), 200)
		u.ToBigInt(reuse)
		if reuse.Cmp(bu) != 0 {
			verbs = 0
		}
		reuse = new(big.Int).Lsh(big.NewInt(7), 300)
		i.ToBigInt(reuse)
		if reuse.Cmp(bi) != 0 {
			verbs = 0
		}
		return fmt.Sprintf("us=%s is=%s rt=%d verbs=%d uf=%s if=%s nar=%s,%s,%d,%s,%s,%d,%s,%d", u.String(), i.String(), rt, verbs,
			exactFloat(u.AsFloat64()), exactFloat(i.AsFloat64()),
			hx.B2i(u.IsInt128()), hx.B2i(u.IsUint64()), u.AsUint64(), hx.B2i(i.IsUint128()), hx.B2i(i.IsInt64()), i.AsInt64(), hx.B2i(i.IsUint64()), i.AsUint64())
	case "big":
		z, ok := new(big.Int).SetString(f[1], 10)
		if !ok {
			return "BADCASE"
		}
		return fmt.Sprintf("u=%s i=%s", showU(num.Uint128FromBigInt(z)), showI(num.Int128FromBigInt(z)))
	case "str":
		s := hx.UnHex(f[1])
		u, uerr := num.Uint128FromString(s)
		i, ierr := num.Int128FromString(s)
		nu, ni := num.Uint128FromStringNoCheck(s), num.Int128FromStringNoCheck(s)
		return fmt.Sprintf("u=%s,%s i=%s,%s nc=%s", showU(u), hx.B2i(uerr != nil), showI(i), hx.B2i(ierr != nil), hx.B2i(nu == u && ni == i))
	case "flt":
		x := math.Float64frombits(u64(f[1]))
		return fmt.Sprintf("u=%s i=%s", showU(num.Uint128FromFloat64(x)), showI(num.Int128FromFloat64(x)))
	}
	return "BADCASE"
}

func genWord(r *hx.Rand) uint64 {
	switch r.Intn(8) {
	case 0:
		return 0
	case 1:
		return math.MaxUint64
	case 2:
		return 1 << 63
	case 3:
		return 1<<63 - 1
	case 4:
		return uint64(r.Intn(3))
	case 5:
		return math.MaxUint64 - uint64(r.Intn(3))
	default:
		return r.U64() >> uint(r.Intn(64))
	}
}

func gen(r *hx.Rand, n int) []string {
	var out []string
	p128 := new(big.Int).Lsh(big.NewInt(1), 128)
	for k := 0; k < n; k++ {
		switch k % 10 {
		case 0, 1, 2, 3:
			out = append(out, fmt.Sprintf("v %d %d", genWord(r), genWord(r)))
		case 4, 5:
			// big ints around every boundary and of 0-5 words, both signs
			var z *big.Int
			switch r.Intn(4) {
			case 0:
				z = new(big.Int).Lsh(big.NewInt(1), uint([]int{63, 64, 127, 128, 129, 192, 256}[r.Intn(7)]))
				z.Add(z, big.NewInt(int64(r.Intn(5)-2)))
			case 1:
				z = new(big.Int).SetUint64(genWord(r))
			default:
				z = new(big.Int)
				for w := r.Intn(5); w > 0; w-- {
					z.Lsh(z, 64).Or(z, new(big.Int).SetUint64(genWord(r)))
				}
			}
			if r.Bool() {
				z.Neg(z)
			}
			_ = p128
			out = append(out, "big "+z.String())
		case 6, 7:
			// text: mostly valid decimals, a malformed stream, other spellings big.Int accepts
			var s string
			switch r.Intn(10) {
			case 0:
				s = []string{"", "-", "+", "--1", "1-", "1 2", " 1", "1 ", "12a", "0x", "1e", "e5", "1.5", "١٢", "1__2", "_1", "0b2", "1.5e0", "1e-1"}[r.Intn(19)]
			case 1:
				s = []string{"0x10", "0X1f", "0b101", "0o17", "017", "1_000", "+5", "-0", "1e3", "12E2", "1.5e1", "-2e2", "0x_1",
					"-15e-1", "-2.5e0", "-1.25E1", "25e-1", "-120e-1", "120e-1", "-1e-3", "1e40", "-1e40", "3.000e2", "-0.5e1"}[r.Intn(24)]
			case 2:
				s = "340282366920938463463374607431768211455"
				if r.Bool() {
					s = "340282366920938463463374607431768211456"
				}
				if r.Chance(1, 3) {
					s = "-170141183460469231731687303715884105729"
				}
			default:
				z := new(big.Int).Lsh(new(big.Int).SetUint64(genWord(r)), 64)
				z.Or(z, new(big.Int).SetUint64(genWord(r)))
				if r.Chance(1, 4) {
					z.Lsh(z, uint(r.Intn(70)))
				}
				if r.Chance(1, 3) {
					z.Neg(z)
				}
				s = z.String()
				if r.Chance(1, 8) {
					s = "+" + s
				}
				if r.Chance(1, 8) {
					s = "00" + s
				}
			}
			h := "-"
			if s != "" {
				h = hx.Hex(s)
			}
			out = append(out, "str "+h)
		default:
			// floats: boundaries and neighbours, specials, random exponents
			var x float64
			switch r.Intn(6) {
			case 0:
				b := math.Ldexp(1, []int{0, 52, 53, 63, 64, 65, 127, 128, 129}[r.Intn(9)])
				switch r.Intn(3) {
				case 0:
					x = math.Nextafter(b, 0)
				case 1:
					x = math.Nextafter(b, math.Inf(1))
				default:
					x = b
				}
			case 1:
				x = []float64{0, math.Copysign(0, -1), math.NaN(), math.Inf(1), math.Inf(-1), math.SmallestNonzeroFloat64, 0.5, 0.999, 1.5, math.MaxFloat64}[r.Intn(10)]
			default:
				x = math.Ldexp(float64(r.U64()>>11)+1, r.Range(-60, 82))
			}
			if r.Bool() {
				x = -x
			}
			out = append(out, fmt.Sprintf("flt %d", math.Float64bits(x)))
		}
	}
	return out
}

func main() { hx.Main(gen, run) }
