// C10 harness: cmdline.Parse on generated option tables and argument vectors.
//
// A case is a ';'-separated token list:
//
//	o:<kind>:<single code point or 0>:<name or ->:<defaults>   one declared option (kind "*k" = slice of k)
//	a:<str>                                                     one argument
//	f:<name>:<args>                                             one response file (one argument per line)
//	I:fatal | I:ok:<observation>                                what the intent the vector was spelled from demands
//
// where <str> is "x"+hex(UTF-8) and lists are ','-joined. The observation is "ok|<v1>|...|<vn>|R:<rest>" or, through the
// worker's exit status, EXIT1 (the library's fatal-exit path). Three streams: (intent) assignments, positional tail and
// @file splits chosen first, then spelled, with the expected outcome computed from the intent alone; the same with one
// malformation injected (expected: fatal exit); (raw) argument vectors made of option-like fragments, compared with the
// model only; (table) ill-formed option tables.
package main

import (
	"fmt"
	"os"
	"path/filepath"
	"reflect"
	"strconv"
	"strings"
	"time"

	"github.com/richardwilkes/toolbox/atexit"
	"github.com/richardwilkes/toolbox/cmdline"
	"verifharness/hx"
)

// ---------- strings on the wire
func enc(s string) string {
	if s == "" {
		return "x"
	}
	return "x" + hx.Hex(s)
}
func dec(s string) string {
	if s == "x" {
		return ""
	}
	return hx.UnHex(s[1:])
}
func encList(l []string) string {
	p := make([]string, len(l))
	for i, s := range l {
		p[i] = enc(s)
	}
	return strings.Join(p, ",")
}
func decList(s string) []string {
	if s == "" {
		return nil
	}
	var out []string
	for _, p := range strings.Split(s, ",") {
		out = append(out, dec(p))
	}
	return out
}

// ---------- kinds
var scalarTypes = map[string]reflect.Type{
	"b": reflect.TypeOf(false), "s": reflect.TypeOf(""), "d": reflect.TypeOf(time.Duration(0)),
	"i": reflect.TypeOf(int(0)), "i8": reflect.TypeOf(int8(0)), "i16": reflect.TypeOf(int16(0)), "i32": reflect.TypeOf(int32(0)), "i64": reflect.TypeOf(int64(0)),
	"u": reflect.TypeOf(uint(0)), "u8": reflect.TypeOf(uint8(0)), "u16": reflect.TypeOf(uint16(0)), "u32": reflect.TypeOf(uint32(0)), "u64": reflect.TypeOf(uint64(0)),
	"f32": reflect.TypeOf(float32(0)), "f64": reflect.TypeOf(float64(0)),
}
var scalarKinds = []string{"b", "s", "d", "i", "i8", "i16", "i32", "i64", "u", "u8", "u16", "u32", "u64", "f32", "f64"}
var sliceKinds = []string{"*b", "*s", "*d", "*i", "*i8", "*i16", "*i32", "*i64", "*u", "*u8", "*u16", "*u32", "*u64"}
var rawKinds = []string{"b", "b", "s", "i", "i8", "i16", "i64", "u8", "u32", "u64", "*s", "*i8", "*u16", "*b"} // kinds whose accepted spellings the model knows completely

func bitsOf(k string) int {
	if len(k) == 1 {
		return 64
	}
	n, _ := strconv.Atoi(k[1:])
	return n
}

// parseOne is the harness's own reading of a value spelling (not the library's).
func parseOne(k, raw string) (reflect.Value, error) {
	t := scalarTypes[k]
	v := reflect.New(t).Elem()
	switch {
	case k == "b":
		b, err := strconv.ParseBool(raw)
		v.SetBool(b)
		return v, err
	case k == "s":
		v.SetString(raw)
		return v, nil
	case k == "d":
		d, err := time.ParseDuration(raw)
		v.SetInt(int64(d))
		return v, err
	case k[0] == 'i':
		n, err := strconv.ParseInt(raw, 0, bitsOf(k))
		v.SetInt(n)
		return v, err
	case k[0] == 'u':
		n, err := strconv.ParseUint(raw, 0, bitsOf(k))
		v.SetUint(n)
		return v, err
	default:
		f, err := strconv.ParseFloat(raw, bitsOf(k))
		v.SetFloat(f)
		return v, err
	}
}

func renderOne(v reflect.Value) string {
	switch v.Kind() {
	case reflect.Bool:
		return strconv.FormatBool(v.Bool())
	case reflect.String:
		return enc(v.String())
	case reflect.Int, reflect.Int8, reflect.Int16, reflect.Int32, reflect.Int64:
		return strconv.FormatInt(v.Int(), 10)
	case reflect.Uint, reflect.Uint8, reflect.Uint16, reflect.Uint32, reflect.Uint64:
		return strconv.FormatUint(v.Uint(), 10)
	default:
		return strconv.FormatFloat(v.Float(), 'g', -1, 64)
	}
}

func render(ptr reflect.Value) string {
	e := ptr.Elem()
	if e.Kind() == reflect.Slice {
		p := make([]string, e.Len())
		for i := range p {
			p[i] = renderOne(e.Index(i))
		}
		return "[" + strings.Join(p, ",") + "]"
	}
	return renderOne(e)
}

type optSpec struct {
	kind   string
	single rune
	name   string
	defs   []string
}

func (o optSpec) isSlice() bool { return o.kind[0] == '*' }
func (o optSpec) elem() string  { return strings.TrimPrefix(o.kind, "*") }
func (o optSpec) token() string {
	n := "-"
	if o.name != "" {
		n = enc(o.name)
	}
	return fmt.Sprintf("o:%s:%d:%s:%s", o.kind, o.single, n, encList(o.defs))
}

// newVar allocates the option variable holding its default.
func newVar(o optSpec) reflect.Value {
	if o.isSlice() {
		p := reflect.New(reflect.SliceOf(scalarTypes[o.elem()]))
		for _, d := range o.defs {
			v, _ := parseOne(o.elem(), d)
			p.Elem().Set(reflect.Append(p.Elem(), v))
		}
		return p
	}
	p := reflect.New(scalarTypes[o.kind])
	if len(o.defs) > 0 {
		v, _ := parseOne(o.kind, o.defs[0])
		p.Elem().Set(v)
	}
	return p
}

func assign(p reflect.Value, o optSpec, raw string) error {
	v, err := parseOne(o.elem(), raw)
	if err != nil {
		return err
	}
	if o.isSlice() {
		p.Elem().Set(reflect.Append(p.Elem(), v))
	} else {
		p.Elem().Set(v)
	}
	return nil
}

func observation(vars []reflect.Value, rest []string) string {
	parts := []string{"ok"}
	for _, v := range vars {
		parts = append(parts, render(v))
	}
	parts = append(parts, "R:"+encList(rest))
	return strings.Join(parts, "|")
}

// ---------- value pools
var strPool = []string{"", "-", "--", "@x", "=x", "a b", "été", "-n", "--alpha=1", "plain", "0", "x=y", "@", "-é"}
var floatPool = []string{"1.5", "-2", "0.25", "1e3", "+7", ".5"}
var durPool = []string{"1s", "90s", "2h", "1.5h", "300ms", "0"}
var boolPool = []string{"1", "t", "T", "TRUE", "true", "True", "0", "f", "F", "FALSE", "false", "False"}

func intPool(k string, r *hx.Rand) string {
	b := bitsOf(k)
	if k[0] == 'i' {
		lo, hi := int64(-1)<<(b-1), int64(1)<<(b-1)-1
		switch r.Intn(8) {
		case 0:
			return strconv.FormatInt(lo, 10)
		case 1:
			return strconv.FormatInt(hi, 10)
		case 2:
			return "+" + strconv.Itoa(r.Intn(100))
		case 3:
			return "-" + strconv.Itoa(r.Intn(100))
		case 4:
			return "0" + strconv.FormatInt(int64(r.Intn(64)), 8)
		case 5:
			return "-0"
		default:
			return strconv.Itoa(r.Intn(128))
		}
	}
	hi := uint64(1)<<(b-1)<<1 - 1
	switch r.Intn(6) {
	case 0:
		return strconv.FormatUint(hi, 10)
	case 1:
		return "0"
	case 2:
		return "0" + strconv.FormatInt(int64(r.Intn(64)), 8)
	default:
		return strconv.Itoa(r.Intn(256))
	}
}

func validValue(k string, r *hx.Rand) string {
	switch {
	case k == "b":
		return boolPool[r.Intn(len(boolPool))]
	case k == "s":
		return strPool[r.Intn(len(strPool))]
	case k == "d":
		return durPool[r.Intn(len(durPool))]
	case k[0] == 'f':
		return floatPool[r.Intn(len(floatPool))]
	default:
		return intPool(k, r)
	}
}

// invalidValue is a spelling the kind rejects ("" for kinds that accept everything).
func invalidValue(k string, r *hx.Rand) string {
	b := bitsOf(k)
	switch {
	case k == "s":
		return ""
	case k == "b":
		return []string{"yes", "2", "tRUE", "-", "tr"}[r.Intn(5)]
	case k == "d":
		return []string{"5", "1x", "s", "--", "1 s"}[r.Intn(5)]
	case k == "f32": // incl. values a float64 holds but a float32 does not: ParseFloat(s, 32) must report the range error
		return []string{"abc", "1e400", "--", "1.5.2", "e1", "3.5e38", "-3.5e38", "1e39", "3.4028236e38"}[r.Intn(9)]
	case k[0] == 'f':
		return []string{"abc", "1e400", "--", "1.5.2", "e1"}[r.Intn(5)]
	case k[0] == 'i':
		switch r.Intn(5) {
		case 0: // one past the range
			if b == 64 {
				return "9223372036854775808"
			}
			return strconv.FormatInt(int64(1)<<(b-1), 10)
		case 1:
			if b == 64 {
				return "-9223372036854775809"
			}
			return strconv.FormatInt(-(int64(1)<<(b-1))-1, 10)
		case 2:
			return "12a"
		case 3:
			return "08"
		default:
			return []string{"-", "+", "--", "1 2", "٣"}[r.Intn(5)]
		}
	default:
		switch r.Intn(5) {
		case 0:
			if b == 64 {
				return "18446744073709551616"
			}
			return strconv.FormatUint(uint64(1)<<b, 10)
		case 1:
			return "-1"
		case 2:
			return "+1"
		case 3:
			return "09"
		default:
			return []string{"-", "-0", "1.0", "a", "1 "}[r.Intn(5)]
		}
	}
}

// ---------- tables
var singlePool = []rune{'a', 'c', 'd', 'n', 'p', 'q', 'v', 'é', 'ß', '7', '日'}
var namePool = []string{"alpha", "beta", "num", "long-name", "x2", "été", "a.b", "no", "日本"}

func genTable(r *hx.Rand, kinds []string, n int) []optSpec {
	singles := append([]rune(nil), singlePool...)
	names := append([]string(nil), namePool...)
	var out []optSpec
	for i := 0; i < n; i++ {
		o := optSpec{kind: kinds[r.Intn(len(kinds))]}
		mode := r.Intn(3) // 0 both, 1 single only, 2 name only
		if mode != 2 {
			j := r.Intn(len(singles))
			o.single = singles[j]
			singles = append(singles[:j], singles[j+1:]...)
		}
		if mode != 1 {
			j := r.Intn(len(names))
			o.name = names[j]
			names = append(names[:j], names[j+1:]...)
		}
		nd := 0
		if o.isSlice() {
			nd = r.Intn(3)
		} else if r.Bool() {
			nd = 1
		}
		for ; nd > 0; nd-- {
			o.defs = append(o.defs, validValue(o.elem(), r))
		}
		out = append(out, o)
	}
	return out
}

func allKinds() []string { return append(append([]string(nil), scalarKinds...), sliceKinds...) }

// ---------- intent stream
type fileSpec struct {
	name string
	args []string
}

var tailPool = []string{"", "-", "--", "@x", "=x", "--alpha", "-a", "pos", "@f0", "-n=1", "--num=3", "a b", "--help", "-h", "é"}

func caseLine(tab []optSpec, args []string, files []fileSpec, expect string) string {
	var t []string
	for _, o := range tab {
		t = append(t, o.token())
	}
	for _, a := range args {
		t = append(t, "a:"+enc(a))
	}
	for _, f := range files {
		t = append(t, "f:"+enc(f.name)+":"+encList(f.args))
	}
	if expect != "" {
		t = append(t, "I:"+expect)
	}
	return strings.Join(t, ";")
}

func genIntent(r *hx.Rand, malform bool) string {
	tab := genTable(r, allKinds(), r.Range(1, 5))
	vars := make([]reflect.Value, len(tab))
	for i, o := range tab {
		vars[i] = newVar(o)
	}
	var args []string
	var starts []int // indices in args where an assignment begins (the scanner is looking for an option there)
	nAssign := r.Intn(7)
	badAt := -1
	if malform {
		badAt = r.Intn(nAssign + 1)
	}
	fatal := false
	missingAtEnd := false
	boolsWithSingle := func() []int {
		var l []int
		for i, o := range tab {
			if o.kind == "b" && o.single != 0 {
				l = append(l, i)
			}
		}
		return l
	}
	emitAssign := func(bad bool) {
		starts = append(starts, len(args))
		i := r.Intn(len(tab))
		o := tab[i]
		badKind := -1
		if bad {
			badKind = r.Intn(6)
		}
		switch badKind {
		case 0: // unknown long option
			args = append(args, []string{"--nosuch", "--nosuch=1", "--=x", "--Alpha"}[r.Intn(4)]) // ("--c" reaches the option whose short name is c: one map holds both spellings)
			fatal = true
			return
		case 1: // unknown short option, alone or after grouped flags
			g := "-"
			for _, b := range boolsWithSingle() {
				if r.Bool() {
					g += string(tab[b].single)
					_ = assign(vars[b], tab[b], "true")
				}
			}
			args = append(args, g+[]string{"Z", "Z=1", "?", "="}[r.Intn(4)])
			fatal = true
			return
		case 2: // help requested
			args = append(args, []string{"--help", "-h"}[r.Intn(2)])
			fatal = true
			return
		}
		if o.kind == "b" {
			switch {
			case badKind == 3 || badKind == 4 || badKind == 5: // a value given to a boolean flag
				if o.name != "" {
					args = append(args, "--"+o.name+"="+[]string{"true", "false", "", "1"}[r.Intn(4)])
					fatal = true
					return
				}
				// only a short name: -b=true reads '=' as the next grouped option, which does not exist
				args = append(args, "-"+string(o.single)+"=true")
				fatal = true
				return
			case o.name != "" && (o.single == 0 || r.Bool()):
				args = append(args, "--"+o.name)
			default: // grouped flags
				g := "-" + string(o.single)
				_ = assign(vars[i], o, "true")
				for _, b := range boolsWithSingle() {
					if r.Chance(1, 3) {
						g += string(tab[b].single)
						_ = assign(vars[b], tab[b], "true")
					}
				}
				args = append(args, g)
				return
			}
			_ = assign(vars[i], o, "true")
			return
		}
		val := validValue(o.elem(), r)
		if badKind == 3 || badKind == 4 {
			if iv := invalidValue(o.elem(), r); iv != "" || o.elem() != "s" {
				if o.elem() != "s" {
					val = iv
					fatal = true
				}
			}
			if !fatal { // a string option accepts everything: ask for help instead
				args = append(args, "--help")
				fatal = true
				return
			}
		}
		var sp []int // 0 --name=value, 1 --name value, 2 -n value, 3 -nvalue, 4 -n=value, 5 grouped flags then -n forms
		if o.name != "" {
			sp = append(sp, 0, 1)
		}
		if o.single != 0 {
			sp = append(sp, 2, 4)
			if val != "" && val[0] != '=' {
				sp = append(sp, 3)
			}
			if len(boolsWithSingle()) > 0 {
				sp = append(sp, 5)
			}
		}
		s := string(o.single)
		pre := "-"
		choice := sp[r.Intn(len(sp))]
		if choice == 5 {
			for _, b := range boolsWithSingle() {
				if r.Bool() {
					pre += string(tab[b].single)
					_ = assign(vars[b], tab[b], "true")
				}
			}
			choice = []int{2, 4}[r.Intn(2)]
			if val != "" && val[0] != '=' && r.Bool() {
				choice = 3
			}
		}
		missing := badKind == 5
		switch choice {
		case 0:
			args = append(args, "--"+o.name+"="+val)
			missing = false
		case 1:
			args = append(args, "--"+o.name)
			if !missing {
				args = append(args, val)
			}
		case 2:
			args = append(args, pre+s)
			if !missing {
				args = append(args, val)
			}
		case 3:
			args = append(args, pre+s+val)
			missing = false
		case 4:
			args = append(args, pre+s+"="+val)
			missing = false
		}
		if missing { // a value is only missing when nothing follows
			fatal = true
			missingAtEnd = true
			return
		}
		if badKind == 5 { // spelling cannot miss its value: make the value invalid instead, or ask for help
			args = append(args, "-h")
			fatal = true
			return
		}
		if !fatal {
			_ = assign(vars[i], o, val)
		}
	}
	for k := 0; k < nAssign && !fatal; k++ {
		emitAssign(k == badAt)
	}
	if malform && !fatal {
		emitAssign(true)
	}
	tailStart := len(args)
	var rest []string
	if !missingAtEnd {
		switch r.Intn(4) {
		case 0:
		case 1:
			args = append(args, "--")
			for n := r.Intn(4); n > 0; n-- {
				rest = append(rest, tailPool[r.Intn(len(tailPool))])
			}
		default:
			rest = append(rest, []string{"", "-", "pos", "a b", "=x", "é", "x=y", "0"}[r.Intn(8)])
			for n := r.Intn(4); n > 0; n-- {
				rest = append(rest, tailPool[r.Intn(len(tailPool))])
			}
		}
		args = append(args, rest...)
	}
	starts = append(starts, tailStart)
	// split into response files: a file reference may stand wherever the scanner is looking for an option
	var files []fileSpec
	if r.Chance(1, 2) && len(args) > 0 {
		nf := r.Range(1, 3)
		for f := 0; f < nf; f++ {
			// candidates: assignment starts that are still plain arguments of the top-level vector
			var cand []int
			for _, s := range starts {
				if s < len(args) {
					cand = append(cand, s)
				}
			}
			if len(cand) == 0 {
				break
			}
			from := cand[r.Intn(len(cand))]
			to := r.Range(from, len(args))
			name := fmt.Sprintf("f%d", f)
			content := append([]string(nil), args[from:to]...)
			files = append(files, fileSpec{name, content})
			args = append(append(append([]string(nil), args[:from]...), "@"+name), args[to:]...)
			// re-index the starts: those inside the file disappear, those after shift
			var ns []int
			for _, s := range starts {
				switch {
				case s <= from:
					ns = append(ns, s)
				case s >= to:
					ns = append(ns, s-(to-from)+1)
				}
			}
			starts = dedup(ns)
			// a start equal to from now points at the reference itself: nesting would need the file's own starts; leave it out
			var ns2 []int
			for _, s := range starts {
				if s != from {
					ns2 = append(ns2, s)
				}
			}
			starts = ns2
		}
	}
	expect := "fatal"
	if !fatal {
		expect = "ok:" + observation(vars, rest)
	}
	return caseLine(tab, args, files, expect)
}

func dedup(l []int) []int {
	var out []int
	for i, v := range l {
		if i == 0 || v != l[i-1] {
			out = append(out, v)
		}
	}
	return out
}

// ---------- raw stream
func genRaw(r *hx.Rand) string {
	tab := genTable(r, rawKinds, r.Range(1, 4))
	var frags []string
	for _, o := range tab {
		if o.single != 0 {
			frags = append(frags, string(o.single), string(o.single))
		}
		if o.name != "" {
			frags = append(frags, o.name)
		}
	}
	frags = append(frags, "-", "-", "--", "=", "@", "f0", "f1", "1", "0", "12", "7", "true", "t", "300", "-1", "", " ", "w", "h", "help", "65536", "08", "+3", "128", "-129", "256")
	mk := func() string {
		var sb strings.Builder
		if r.Chance(2, 3) {
			sb.WriteString([]string{"-", "--", "@", ""}[r.Intn(4)])
		}
		for n := r.Intn(4); n > 0; n-- {
			sb.WriteString(frags[r.Intn(len(frags))])
		}
		return sb.String()
	}
	var args []string
	for n := r.Intn(7); n > 0; n-- {
		args = append(args, mk())
	}
	var files []fileSpec
	for f := 0; f < 2; f++ {
		if r.Bool() {
			var c []string
			for n := r.Intn(4); n > 0; n-- {
				c = append(c, mk())
			}
			files = append(files, fileSpec{fmt.Sprintf("f%d", f), c})
		}
	}
	return caseLine(tab, args, files, "")
}

// ---------- ill-formed tables
func genBadTable(r *hx.Rand) string {
	tab := genTable(r, allKinds(), r.Range(1, 4))
	i := r.Intn(len(tab))
	expect := "fatal"
	switch r.Intn(5) {
	case 0: // unnamed option
		tab[i].single, tab[i].name = 0, ""
	case 1: // duplicate single
		d := tab[i]
		if d.single == 0 {
			tab[i].single = 'k'
			d = tab[i]
		}
		tab = append(tab, optSpec{kind: "s", single: d.single})
	case 2: // duplicate name
		if tab[i].name == "" {
			tab[i].name = "kk"
		}
		tab = append(tab, optSpec{kind: "i", name: tab[i].name})
	case 3: // collides with the built-in help option
		if r.Bool() {
			tab[i].single = 'h'
		} else {
			tab[i].name = "help"
		}
	default: // a name equal to another option's single letter spelled long is fine: "--a" is not "-a" (names have 2+ characters)
		expect = ""
	}
	var args []string
	if r.Bool() {
		args = append(args, "pos")
	}
	if expect == "" {
		return caseLine(tab, args, nil, "")
	}
	return caseLine(tab, args, nil, expect)
}

func gen(r *hx.Rand, n int) []string {
	var out []string
	for i := 0; i < n; i++ {
		switch {
		case i%20 < 9:
			out = append(out, genIntent(r, false))
		case i%20 < 13:
			out = append(out, genIntent(r, true))
		case i%20 < 19:
			out = append(out, genRaw(r))
		default:
			out = append(out, genBadTable(r))
		}
	}
	return out
}

// ---------- running a case
var workDir string

func run(c string) (obs string) {
	defer func() {
		if e := recover(); e != nil {
			obs = "P"
		}
	}()
	if workDir == "" {
		d, err := os.MkdirTemp("", "verif-c10-")
		if err != nil {
			return "HARNESS-ERROR " + err.Error()
		}
		workDir = d
		atexit.Register(func() { _ = os.RemoveAll(workDir) }) // the fatal-exit path runs the registered functions
		if err = os.Chdir(d); err != nil {
			return "HARNESS-ERROR " + err.Error()
		}
	}
	if old, err := filepath.Glob(filepath.Join(workDir, "*")); err == nil {
		for _, f := range old {
			_ = os.Remove(f)
		}
	}
	var tab []optSpec
	var args []string
	for _, tok := range strings.Split(c, ";") {
		p := strings.Split(tok, ":")
		switch p[0] {
		case "o":
			o := optSpec{kind: p[1], single: rune(hx.Atoi(p[2])), defs: decList(p[4])}
			if p[3] != "-" {
				o.name = dec(p[3])
			}
			tab = append(tab, o)
		case "a":
			args = append(args, dec(p[1]))
		case "f":
			var sb strings.Builder
			for _, a := range decList(p[2]) {
				sb.WriteString(a)
				sb.WriteByte('\n')
			}
			if err := os.WriteFile(filepath.Join(workDir, dec(p[1])), []byte(sb.String()), 0o600); err != nil {
				return "HARNESS-ERROR " + err.Error()
			}
		}
	}
	cl := cmdline.New(false)
	vars := make([]reflect.Value, len(tab))
	for i, o := range tab {
		vars[i] = newVar(o)
		op := cl.NewGeneralOption(vars[i].Interface())
		if o.single != 0 {
			op.SetSingle(o.single)
		}
		if o.name != "" {
			op.SetName(o.name)
		}
	}
	rest := cl.Parse(args)
	return observation(vars, rest)
}

func main() {
	defer func() {
		if workDir != "" {
			_ = os.RemoveAll(workDir)
		}
	}()
	hx.Main(gen, run)
}
