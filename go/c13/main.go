// C13 harness: log/tracelog and log/multilog.
//
// seq case:  "new <sync|buf> <minlevel> <depth>;grp <h> <keyhex|->;att <h> <attrs>;log <h> <level> <msghex|-> <stack> <attrs>;fail <0|1>;..."
// handlers are numbered in creation order (0 = the one made by new; grp/att derive a new one from <h>). Records carry one fixed
// time. Every Write to the sink is captured separately; a stack block is replaced by "<STACK>\n". Per operation the observation
// is "<err 0|1>:<hex of write>,<hex of write>..." (buffered handlers are given time to deliver).
// attrs := '(' [attr {',' attr}] ')'   attr := keyhex ':' value
// value := 's' hex | 'i' int | 'b' 0|1 | 't' | 'n' | 'g' attrs | 'v' value   (v: the value is wrapped in a slog.LogValuer)
//
// conc case: "conc <sync|buf> <goroutines> <records> <depth>": concurrent logging through derived handlers sharing one sink.
// multi case: "multi <min>:<ok|fail|panic>,...;mh <level>;mg <keyhex>;ma <attrs>;..." multilog over recording children.
package main

import (
	"context"
	"errors"
	"fmt"
	"log/slog"
	"regexp"
	"strings"
	"sync"
	"sync/atomic"
	"time"

	"github.com/richardwilkes/toolbox/errs"
	"github.com/richardwilkes/toolbox/log/multilog"
	"github.com/richardwilkes/toolbox/log/tracelog"
	"verifharness/hx"
)

var fixedTime = time.Date(2024, 3, 9, 10, 11, 12, 123456789, time.UTC)

type valuer struct{ v slog.Value }

func (v valuer) LogValue() slog.Value { return v.v }

type parser struct {
	s string
	i int
}

func (p *parser) peek() byte {
	if p.i < len(p.s) {
		return p.s[p.i]
	}
	return 0
}
func (p *parser) hex() string {
	j := p.i
	for p.i < len(p.s) && strings.IndexByte("0123456789abcdef", p.s[p.i]) >= 0 {
		p.i++
	}
	if j == p.i {
		return ""
	}
	return hx.UnHex(p.s[j:p.i])
}
func (p *parser) attrs() []slog.Attr {
	var out []slog.Attr
	p.i++ // (
	for p.peek() != ')' && p.peek() != 0 {
		key := p.hex()
		p.i++ // :
		out = append(out, slog.Attr{Key: key, Value: p.value()})
		if p.peek() == ',' {
			p.i++
		}
	}
	p.i++ // )
	return out
}
func (p *parser) value() slog.Value {
	c := p.peek()
	p.i++
	switch c {
	case 's':
		return slog.StringValue(p.hex())
	case 'i':
		j := p.i
		if p.peek() == '-' {
			p.i++
		}
		for p.peek() >= '0' && p.peek() <= '9' {
			p.i++
		}
		return slog.Int64Value(int64(hx.Atoi(p.s[j:p.i])))
	case 'b':
		p.i++
		return slog.BoolValue(p.s[p.i-1] == '1')
	case 't':
		return slog.TimeValue(fixedTime)
	case 'n':
		return slog.AnyValue(nil)
	case 'g':
		return slog.GroupValue(p.attrs()...)
	case 'v':
		return slog.AnyValue(valuer{p.value()})
	}
	return slog.AnyValue(nil)
}

func unhexDash(s string) string {
	if s == "-" {
		return ""
	}
	return hx.UnHex(s)
}

// sink captures every Write separately
type sink struct {
	mu     sync.Mutex
	writes [][]byte
	fail   bool
	gate   chan struct{} // when set, Write waits until it is closed
}

func (s *sink) Write(b []byte) (int, error) {
	if s.gate != nil {
		<-s.gate
	}
	s.mu.Lock()
	defer s.mu.Unlock()
	s.writes = append(s.writes, append([]byte(nil), b...))
	if s.fail {
		return 0, errors.New("sink failed")
	}
	return len(b), nil
}
func (s *sink) take() [][]byte {
	s.mu.Lock()
	defer s.mu.Unlock()
	w := s.writes
	s.writes = nil
	return w
}

type stackCarrier struct{ e errs.StackError }

func (s stackCarrier) StackError() errs.StackError { return s.e }

func mkRecord(level int, msg string, stack bool, attrs []slog.Attr) (slog.Record, string) {
	r := slog.NewRecord(fixedTime, slog.Level(level), msg, 0)
	block := ""
	if stack {
		e := errs.New("boom")
		r.AddAttrs(slog.Any(errs.StackTraceKey, stackCarrier{e}))
		block = e.StackTrace(true) + "\n"
	}
	r.AddAttrs(attrs...)
	return r, block
}

// stackFlag: 0 = plain record; 1 = a record built here that carries an errs stack; 2 = the record errs' own logging functions
// build for an error (errs.LogAttrsWithLevel: message = the error's message, stack attribute first, then the attributes)
func stackFlag(r *hx.Rand, allowed bool) string {
	if !allowed || !r.Chance(1, 4) {
		return "0"
	}
	if r.Bool() {
		return "2"
	}
	return "1"
}

var stampRE = regexp.MustCompile(` \| \d{4}-\d\d-\d\d \| \d\d:\d\d:\d\d\.\d{3} \| `)

// fixStamp replaces the header's time stamp (errs' logging functions use time.Now) by the fixed one
func fixStamp(b []byte) []byte {
	if loc := stampRE.FindIndex(b); loc != nil {
		return append(append(append([]byte{}, b[:loc[0]]...), fixedTime.Round(0).Format(" | 2006-01-02 | 15:04:05.000 | ")...), b[loc[1]:]...)
	}
	return b
}

func maskStack(b []byte, block string) string {
	s := string(b)
	if block != "" && strings.HasSuffix(s, block) {
		s = s[:len(s)-len(block)] + "<STACK>\n"
	}
	return hx.Hex(s)
}

func runSeq(ops []string) string {
	var hs []slog.Handler
	sk := &sink{}
	buffered := false
	var out []string
	for _, o := range ops {
		f := strings.Fields(o)
		if len(f) == 0 {
			continue
		}
		if f[0] != "new" && len(hs) == 0 {
			return "BADCASE"
		}
		switch f[0] {
		case "new":
			cfg := &tracelog.Config{Level: slog.Level(hx.Atoi(f[2])), Sink: sk}
			if f[1] == "buf" {
				cfg.BufferDepth = hx.Atoi(f[3])
				buffered = true
			}
			hs = append(hs, tracelog.New(cfg))
		case "grp":
			if hx.Atoi(f[1]) >= len(hs) {
				return "BADCASE"
			}
			hs = append(hs, hs[hx.Atoi(f[1])].WithGroup(unhexDash(f[2])))
		case "att":
			if hx.Atoi(f[1]) >= len(hs) {
				return "BADCASE"
			}
			p := &parser{s: f[2]}
			hs = append(hs, hs[hx.Atoi(f[1])].WithAttrs(p.attrs()))
		case "fail":
			sk.mu.Lock()
			sk.fail = f[1] == "1"
			sk.mu.Unlock()
		case "log":
			h := hx.Atoi(f[1])
			if h >= len(hs) {
				return "BADCASE"
			}
			p := &parser{s: f[5]}
			attrs := p.attrs()
			r, block := mkRecord(hx.Atoi(f[2]), unhexDash(f[3]), f[4] == "1", attrs)
			viaErrs := f[4] == "2"
			e := "-"
			if hs[h].Enabled(context.Background(), r.Level) {
				if viaErrs {
					// errs' logging entry point creates the record (and swallows the handler's error)
					er := errs.New(unhexDash(f[3]))
					block = er.StackTrace(true) + "\n"
					if len(attrs)%2 == 0 {
						errs.LogAttrsWithLevel(context.Background(), r.Level, slog.New(hs[h]), er, attrs...)
					} else { // the variadic-any entry point: Record.Add takes slog.Attr values as they are
						args := make([]any, len(attrs))
						for i, a := range attrs {
							args[i] = a
						}
						errs.LogWithLevel(context.Background(), r.Level, slog.New(hs[h]), er, args...)
					}
					e = "?"
				} else {
					e = hx.B2i(hs[h].Handle(context.Background(), r) != nil)
				}
				if buffered {
					deadline := time.Now().Add(200 * time.Millisecond)
					for time.Now().Before(deadline) {
						sk.mu.Lock()
						n := len(sk.writes)
						sk.mu.Unlock()
						if n > 0 {
							break
						}
						time.Sleep(200 * time.Microsecond)
					}
				}
			}
			var ws []string
			for _, w := range sk.take() {
				if viaErrs {
					w = fixStamp(w)
				}
				ws = append(ws, maskStack(w, block))
			}
			out = append(out, e+":"+strings.Join(ws, ","))
		default:
			return "BADCASE"
		}
	}
	return strings.Join(out, " / ")
}

func runConc(f []string) string {
	buffered, gor, recs, depth := f[1] == "buf", hx.Atoi(f[2]), hx.Atoi(f[3]), hx.Atoi(f[4])
	sk := &sink{}
	cfg := &tracelog.Config{Level: slog.LevelDebug, Sink: sk}
	if buffered {
		cfg.BufferDepth = depth
		sk.gate = make(chan struct{}) // the sink is stuck while the goroutines log: Handle must drop, never wait
	}
	root := tracelog.New(cfg)
	var wg sync.WaitGroup
	for g := 0; g < gor; g++ {
		wg.Add(1)
		go func(g int) {
			defer wg.Done()
			h := root.WithGroup(fmt.Sprintf("g%d", g)).WithAttrs([]slog.Attr{slog.Int("who", g)})
			for j := 0; j < recs; j++ {
				r, _ := mkRecord(0, fmt.Sprintf("m%d.%d", g, j), false, []slog.Attr{slog.String("pad", strings.Repeat("x", 40+j%7)), slog.Int("n", j)})
				_ = h.Handle(context.Background(), r)
			}
		}(g)
	}
	finished := make(chan struct{})
	go func() { wg.Wait(); close(finished) }()
	noblock := 1
	select {
	case <-finished:
	case <-time.After(5 * time.Second):
		noblock = 0
	}
	if buffered {
		close(sk.gate)
		time.Sleep(20 * time.Millisecond)
	}
	ws := sk.take()
	whole, dup, order := 1, 1, 1
	seen := map[string]bool{}
	last := make([]int, gor)
	for i := range last {
		last[i] = -1
	}
	for _, w := range ws {
		s := string(w)
		var g, j int
		i := strings.Index(s, " | m")
		if i < 0 || !strings.HasSuffix(s, "\n") || strings.Count(s, "\n") != 1 {
			whole = 0
			continue
		}
		if _, err := fmt.Sscanf(s[i+3:], "m%d.%d", &g, &j); err != nil || g < 0 || g >= gor {
			whole = 0
			continue
		}
		want := fmt.Sprintf("INF | 2024-03-09 | 10:11:12.123 | m%d.%d | g%d.who=%d g%d.pad=%q g%d.n=%d\n", g, j, g, g, g, strings.Repeat("x", 40+j%7), g, j)
		if s != want {
			whole = 0
		}
		if seen[s] {
			dup = 0
		}
		seen[s] = true
		if j <= last[g] {
			order = 0
		}
		last[g] = j
	}
	count := 1
	if !buffered && len(ws) != gor*recs {
		count = 0
	}
	if buffered && len(ws) > gor*recs {
		count = 0
	}
	if buffered && len(ws) > depth+1 {
		count = 0 // with the sink stuck at most the queue and the record in the delivery goroutine's hand can get through
	}
	return fmt.Sprintf("whole=%d nodup=%d order=%d count=%d noblock=%d", whole, dup, order, count, noblock)
}

// recording child for multilog
type child struct {
	min   int
	beh   string
	chain string // derivation applied
	log   *[]string
	id    int
}

func (c *child) Enabled(_ context.Context, l slog.Level) bool { return int(l) >= c.min }
func (c *child) Handle(_ context.Context, r slog.Record) error {
	*c.log = append(*c.log, fmt.Sprintf("%d[%s]%s", c.id, c.chain, r.Message))
	switch c.beh {
	case "fail":
		return errors.New("child failed")
	case "panic":
		if atomic.AddInt64(&panicCount, 1)%2 == 0 {
			var np *int
			panic(np) // a typed nil inside a non-nil interface is still a panic
		}
		panic("child panicked")
	}
	return nil
}
func (c *child) WithAttrs(a []slog.Attr) slog.Handler {
	d := *c
	d.chain += fmt.Sprintf("a%d", len(a))
	return &d
}
func (c *child) WithGroup(g string) slog.Handler {
	d := *c
	d.chain += "g" + g
	return &d
}

func runMulti(ops []string) string {
	f := strings.Fields(ops[0])
	var log []string
	var kids []slog.Handler
	if len(f) > 1 {
		for i, spec := range strings.Split(f[1], ",") {
			p := strings.Split(spec, ":")
			kids = append(kids, &child{min: hx.Atoi(p[0]), beh: p[1], log: &log, id: i})
		}
	}
	var h slog.Handler = multilog.New(kids...)
	parent := h
	var out []string
	n := 0
	for _, o := range ops[1:] {
		g := strings.Fields(o)
		if len(g) == 0 {
			continue
		}
		switch g[0] {
		case "mh":
			log = nil
			lvl := hx.Atoi(g[1])
			n++
			r := slog.NewRecord(fixedTime, slog.Level(lvl), fmt.Sprintf("r%d", n), 0)
			en := h.Enabled(context.Background(), r.Level)
			err := h.Handle(context.Background(), r)
			out = append(out, fmt.Sprintf("en=%s err=%s %s", hx.B2i(en), hx.B2i(err != nil), strings.Join(log, ",")))
		case "mg":
			h = h.WithGroup(unhexDash(g[1]))
		case "ma":
			p := &parser{s: g[1]}
			h = h.WithAttrs(p.attrs())
		case "mp": // the handler first made must be unaffected by the derivations
			log = nil
			n++
			r := slog.NewRecord(fixedTime, slog.LevelError, fmt.Sprintf("r%d", n), 0)
			err := parent.Handle(context.Background(), r)
			out = append(out, fmt.Sprintf("en=1 err=%s %s", hx.B2i(err != nil), strings.Join(log, ",")))
		default:
			return "BADCASE"
		}
	}
	return strings.Join(out, " / ")
}

func run(c string) (obs string) {
	defer func() {
		if e := recover(); e != nil {
			obs = "P"
		}
	}()
	ops := strings.Split(c, ";")
	f := strings.Fields(ops[0])
	switch f[0] {
	case "new":
		return runSeq(ops)
	case "conc":
		return runConc(f)
	case "multi":
		return runMulti(ops)
	}
	return "BADCASE"
}

// ---- generation
var keyPool = []string{"k", "a.b", "", "user", "x y", "err", "id", "q\"", "n"}
var strPool = []string{"", "abc", "a b", "say \"hi\"", "back\\slash", "x=1|y", "tail."}

func hexDash(s string) string {
	if s == "" {
		return "-"
	}
	return hx.Hex(s)
}

func genValue(r *hx.Rand, depth int) string {
	switch x := r.Intn(12); {
	case x < 3:
		s := strPool[r.Intn(len(strPool))]
		if s == "" {
			return "s"
		}
		return "s" + hx.Hex(s)
	case x < 5:
		return fmt.Sprintf("i%d", r.Range(-1000, 1000000))
	case x < 6:
		return fmt.Sprintf("b%d", r.Intn(2))
	case x < 7:
		return "t"
	case x < 8:
		return "n"
	case x < 9:
		return "v" + genValue(r, depth-1)
	default:
		if depth <= 0 {
			return "i7"
		}
		return "g" + genAttrs(r, depth-1, r.Intn(4))
	}
}

func genAttrs(r *hx.Rand, depth, n int) string {
	var parts []string
	for i := 0; i < n; i++ {
		k := keyPool[r.Intn(len(keyPool))]
		kh := ""
		if k != "" {
			kh = hx.Hex(k)
		}
		parts = append(parts, kh+":"+genValue(r, depth))
	}
	return "(" + strings.Join(parts, ",") + ")"
}

func gen(r *hx.Rand, n int) []string {
	var out []string
	for i := 0; i < n; i++ {
		switch {
		case i%10 == 9:
			out = append(out, fmt.Sprintf("conc %s %d %d %d", []string{"sync", "buf"}[r.Intn(2)], r.Range(2, 8), r.Range(5, 60), r.Range(1, 64)))
		case i%10 >= 7:
			var kids []string
			for k := r.Intn(5); k > 0; k-- {
				kids = append(kids, fmt.Sprintf("%d:%s", []int{-4, 0, 4, 8}[r.Intn(4)], []string{"ok", "ok", "fail", "panic"}[r.Intn(4)]))
			}
			ops := []string{strings.TrimSpace("multi " + strings.Join(kids, ","))}
			for k := r.Range(1, 8); k > 0; k-- {
				switch r.Intn(6) {
				case 0:
					ops = append(ops, "mg "+hexDash([]string{"", "grp", "a.b"}[r.Intn(3)]))
				case 1:
					ops = append(ops, "ma "+genAttrs(r, 1, r.Intn(3)))
				case 2:
					ops = append(ops, "mp")
				default:
					ops = append(ops, fmt.Sprintf("mh %d", []int{-8, -4, 0, 4, 8, 12}[r.Intn(6)]))
				}
			}
			out = append(out, strings.Join(ops, ";"))
		default:
			mode := "sync"
			if r.Chance(1, 4) {
				mode = "buf"
			}
			ops := []string{fmt.Sprintf("new %s %d %d", mode, []int{-4, 0, 0, 4}[r.Intn(4)], r.Range(1, 8))}
			if r.Chance(1, 4) {
				// a chain of derivations, then several siblings derived from its end, then records through every one of them
				// (derived handlers must not share storage: a later sibling must not change an earlier one)
				last := 0
				for d := r.Range(1, 7); d > 0; d-- {
					if r.Bool() {
						ops = append(ops, fmt.Sprintf("grp %d %s", last, hexDash([]string{"req", "g", "a.b"}[r.Intn(3)])))
					} else {
						ops = append(ops, fmt.Sprintf("att %d %s", last, genAttrs(r, 1, r.Range(1, 3))))
					}
					last++
				}
				parent := last
				sibs := r.Range(2, 4)
				for sb := 0; sb < sibs; sb++ {
					ops = append(ops, fmt.Sprintf("att %d (%s:s%s)", parent, hx.Hex("who"), hx.Hex(fmt.Sprintf("sib%d", sb))))
					last++
				}
				for h := parent; h <= last; h++ {
					ops = append(ops, fmt.Sprintf("log %d 8 %s 0 %s", h, hx.Hex("m"), genAttrs(r, 1, r.Intn(3))))
				}
				out = append(out, strings.Join(ops, ";"))
				continue
			}
			nh := 1
			grouped := []bool{false} // a stack attribute is only recognised while no group prefix is in force
			for k := r.Range(1, 10); k > 0; k-- {
				switch x := r.Intn(10); {
				case x < 2:
					src, g := r.Intn(nh), []string{"", "req", "a.b", "g"}[r.Intn(4)]
					ops = append(ops, fmt.Sprintf("grp %d %s", src, hexDash(g)))
					grouped = append(grouped, grouped[src] || g != "")
					nh++
				case x < 4:
					src := r.Intn(nh)
					ops = append(ops, fmt.Sprintf("att %d %s", src, genAttrs(r, 2, r.Intn(4))))
					grouped = append(grouped, grouped[src])
					nh++
				case x < 5 && mode == "sync":
					ops = append(ops, fmt.Sprintf("fail %d", r.Intn(2)))
				default:
					h := r.Intn(nh)
					ops = append(ops, fmt.Sprintf("log %d %d %s %s %s", h, []int{-8, -4, -1, 0, 2, 4, 8, 12, 100}[r.Intn(9)],
						hexDash([]string{"", "hello", "two words", "a|b", "tab\there"}[r.Intn(5)]), stackFlag(r, !grouped[h]), genAttrs(r, 3, r.Intn(5))))
				}
			}
			out = append(out, strings.Join(ops, ";"))
		}
	}
	return out
}

var panicCount int64

func main() { hx.Main(gen, run) }
