// C11 harness: programs that build error values (New, plain errors, nil, typed nil, empty *Error), Append them in every
// combination (including aggregates as arguments and reuse of earlier values) and Wrap them; after EVERY step the content of
// EVERY value built so far is printed, so that a modified argument or a lost error shows up.
package main

import (
	"errors"
	"fmt"
	"strings"

	"github.com/richardwilkes/toolbox/errs"
	"verifharness/hx"
)

type customErr struct{ s string }

func (c *customErr) Error() string { return c.s }

// nil values of slice- and map-kind error types are nil for Wrap/WrapTyped/Append too
type sliceErr []string

func (e sliceErr) Error() string { return strings.Join(e, ";") }

type mapErr map[string]int

func (e mapErr) Error() string { return fmt.Sprint(len(e)) }

// outerErr is a plain (non-*Error) error that wraps another error
type outerErr struct {
	msg   string
	inner error
}

func (o *outerErr) Error() string { return o.msg }
func (o *outerErr) Unwrap() error { return o.inner }

func gen(r *hx.Rand, n int) []string {
	var out []string
	for c := 0; c < n; c++ {
		nops := r.Range(2, 14)
		var ops []string
		nv := 0
		msg := 0
		var size []int  // upper estimate of each value's chain length, to keep self-appends from growing exponentially
		var okArg []int // values usable as list arguments: a nil pointer of a foreign error type is a "non-nil error" for Go and is left out
		for k := 0; k < nops; k++ {
			if nv >= 1 && r.Chance(1, 12) {
				msg++
				t := r.Intn(nv) // the wrapped error is a real one (New or plain): a typed-nil inner would make errors.Is itself panic
				for k2 := 0; k2 < nv && !(strings.HasPrefix(ops[t], "new") || strings.HasPrefix(ops[t], "plain")); k2++ {
					t = (t + 1) % nv
				}
				if strings.HasPrefix(ops[t], "new") || strings.HasPrefix(ops[t], "plain") {
					ops = append(ops, fmt.Sprintf("outer %d %d", msg, t))
				} else {
					ops = append(ops, fmt.Sprintf("plain %d", msg))
				}
			} else if nv < 2 || r.Chance(1, 2) {
				switch r.Intn(9) {
				case 0, 1, 2:
					msg++
					ops = append(ops, fmt.Sprintf("new %d", msg))
				case 3, 4:
					msg++
					ops = append(ops, fmt.Sprintf("plain %d", msg))
				case 5:
					ops = append(ops, "nil")
				case 6:
					ops = append(ops, "tnil")
				case 7:
					ops = append(ops, []string{"tnilc", "tnils", "tnilm"}[r.Intn(3)])
				default:
					ops = append(ops, "empty")
				}
			} else if r.Chance(1, 6) {
				// Wrap of a plain error that itself wraps an *Error returns it as-is (errors.As finds the inner one): left out
				t := r.Intn(nv)
				for strings.HasPrefix(ops[t], "outer") {
					t = (t + 1) % nv
					if t == 0 && strings.HasPrefix(ops[0], "outer") {
						break
					}
				}
				if strings.HasPrefix(ops[t], "outer") {
					ops = append(ops, "nil")
				} else {
					ops = append(ops, fmt.Sprintf("wrap %d", t))
				}
			} else {
				na := r.Intn(5)
				if len(okArg) == 0 {
					na = 0
				}
				args := make([]string, na)
				for i := range args {
					args[i] = fmt.Sprint(okArg[r.Intn(len(okArg))])
				}
				a := "."
				if na > 0 {
					a = strings.Join(args, ",")
				}
				acc := r.Intn(nv)
				if r.Chance(1, 3) {
					acc = nv - 1 // chains of repeated Append on the latest value
				}
				est := size[acc]
				for _, x := range args {
					est += size[hx.Atoi(x)] + est // an argument aliasing the accumulator is read as grown so far
				}
				if est > 48 {
					a, est = ".", size[acc]
				}
				ops = append(ops, fmt.Sprintf("app %d %s", acc, a))
				size = append(size, est)
			}
			if len(size) < nv+1 {
				last := ops[len(ops)-1]
				switch {
				case strings.HasPrefix(last, "new"), strings.HasPrefix(last, "plain"), strings.HasPrefix(last, "outer"):
					size = append(size, 1)
				case strings.HasPrefix(last, "wrap"):
					size = append(size, size[hx.Atoi(strings.Fields(last)[1])]+1)
				default:
					size = append(size, 0)
				}
			}
			if !strings.HasPrefix(ops[len(ops)-1], "tnil") && !strings.HasPrefix(ops[len(ops)-1], "wrap") {
				okArg = append(okArg, nv)
			}
			nv++
		}
		out = append(out, strings.Join(ops, ";"))
	}
	return out
}

// describe renders one value: kind, and for an *Error its Count and the messages of its WrappedErrors in order.
func describe(v error) string {
	if v == nil {
		return "nil"
	}
	switch e := v.(type) {
	case *errs.Error:
		if e == nil {
			return "tnil"
		}
		var ms []string
		for _, w := range e.WrappedErrors() {
			var we *errs.Error
			if errors.As(w, &we) {
				ms = append(ms, we.Message())
			} else {
				ms = append(ms, "?")
			}
		}
		on := "E"
		if e.ErrorOrNil() == nil {
			on = "e"
		}
		return fmt.Sprintf("%s%d[%s]", on, e.Count(), strings.Join(ms, ","))
	case *customErr:
		if e == nil {
			return "tnilc"
		}
		return "plain:" + e.s
	case sliceErr:
		if e == nil {
			return "tnilc"
		}
	case mapErr:
		if e == nil {
			return "tnilc"
		}
	}
	return "plain:" + v.Error()
}

func run(c string) (obs string) {
	var done []string
	defer func() {
		if e := recover(); e != nil {
			obs = strings.Join(append(done, "PANIC"), " / ")
		}
	}()
	var vals []error
	plains := map[int]error{}
	for _, o := range strings.Split(c, ";") {
		f := strings.Fields(o)
		if len(f) == 0 {
			continue
		}
		extra := ""
		switch f[0] {
		case "new":
			if hx.Atoi(f[1])%2 == 0 {
				vals = append(vals, errs.New("m"+f[1]))
			} else { // the formatting constructor builds the same error
				vals = append(vals, errs.Newf("%s%d", "m", hx.Atoi(f[1])))
			}
		case "plain":
			p := errors.New("p" + f[1])
			plains[len(vals)] = p
			vals = append(vals, p)
		case "nil":
			vals = append(vals, nil)
		case "tnil":
			var e *errs.Error
			vals = append(vals, e)
		case "tnilc":
			var e *customErr
			vals = append(vals, e)
		case "tnils":
			var e sliceErr
			vals = append(vals, e)
		case "tnilm":
			var e mapErr
			vals = append(vals, e)
		case "outer":
			p := &outerErr{msg: "p" + f[1], inner: vals[hx.Atoi(f[2])]}
			plains[len(vals)] = p
			vals = append(vals, p)
		case "empty":
			vals = append(vals, &errs.Error{})
		case "app":
			var args []error
			if f[2] != "." {
				for _, a := range strings.Split(f[2], ",") {
					args = append(args, vals[hx.Atoi(a)])
				}
			}
			res := errs.Append(vals[hx.Atoi(f[1])], args...)
			vals = append(vals, res)
			// every plain error that went in must still be reachable through errors.Is
			if res != nil {
				reach := true
				// a plain accumulator is wrapped: the first contained error must still reach it
				if p, ok := plains[hx.Atoi(f[1])]; ok {
					ws := res.WrappedErrors()
					reach = len(ws) > 0 && errors.Is(ws[0], p)
				}
				for _, a := range args {
					if _, isE := a.(*errs.Error); !isE && a != nil {
						switch a.(type) {
						case *customErr, sliceErr, mapErr:
							continue
						}
						found := false
						for _, w := range res.WrappedErrors() {
							if errors.Is(w, a) {
								found = true
							}
						}
						reach = reach && found
					}
				}
				extra = " is=" + hx.B2i(reach)
			}
		case "wrap":
			src := vals[hx.Atoi(f[1])]
			w := errs.Wrap(src)
			wt := errs.WrapTyped(src)
			same := "0"
			if w != nil && w == src {
				same = "1"
			}
			is := "-"
			if p, ok := plains[hx.Atoi(f[1])]; ok {
				is = hx.B2i(errors.Is(w, p) && errors.Is(wt, p))
				var target *errs.Error
				if !errors.As(w, &target) || target.Message() != p.Error() {
					is = "0"
				}
			}
			tn := "0"
			if (w == nil) == (wt == nil) {
				tn = "1"
			}
			extra = fmt.Sprintf(" same=%s is=%s agree=%s", same, is, tn)
			vals = append(vals, w)
		default:
			return "BADCASE"
		}
		// alias: index of the earliest value that is the very same *Error pointer
		last := vals[len(vals)-1]
		alias := len(vals) - 1
		if le, ok := last.(*errs.Error); ok && le != nil {
			for i, v := range vals {
				if ve, ok2 := v.(*errs.Error); ok2 && ve == le {
					alias = i
					break
				}
			}
		}
		parts := make([]string, len(vals))
		for i, v := range vals {
			parts[i] = describe(v)
		}
		// rendering: %s and %q carry the message, %v/%+v add a stack trace naming the creating function
		fmtok := ""
		if le, ok := last.(*errs.Error); ok && le != nil && le.ErrorOrNil() != nil {
			s1, s2, s3 := fmt.Sprintf("%s", le), fmt.Sprintf("%q", le), fmt.Sprintf("%+v", le)
			ok1 := s1 == le.Message() && le.Error() == fmt.Sprintf("%v", le) && s2 == fmt.Sprintf("%q", le.Message()) && strings.HasPrefix(s3, le.Message()) &&
				strings.Contains(s3, "main.run") && strings.Contains(fmt.Sprintf("%v", le), "main.run")
			fmtok = " fmt=" + hx.B2i(ok1)
		}
		done = append(done, fmt.Sprintf("a=%d %s%s%s", alias, strings.Join(parts, " "), extra, fmtok))
	}
	return strings.Join(done, " / ")
}

func main() { hx.Main(gen, run) }
