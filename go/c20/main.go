// C20 harness: txt.NaturalCmp / NaturalLess / SortStringsNatural* on generated pairs, triples and slices.
package main

import (
	"fmt"
	"strings"

	"github.com/richardwilkes/toolbox/txt"
	"verifharness/hx"
)

var alphabet = []string{"0", "0", "0", "1", "9", "5", "a", "A", "b", "B", "z", "Z", "_", "[", " ", "\xc3\xa9", "{", "`", "@", ":", "/",
	"\xc3\x89", "\xc3\xaa", "\xc3\x8a", "\xe2\x84\xaa", "k", "K", "\xc5\xbf", "s", "S"} // incl. É ê Ê, Kelvin sign, long s: Unicode-fold-equal, not ASCII-fold-equal

func randStr(r *hx.Rand, maxTok int) string {
	var sb strings.Builder
	n := r.Intn(maxTok + 1)
	for i := 0; i < n; i++ {
		switch r.Intn(10) {
		case 0, 1: // digit run with leading zeros
			for z := r.Intn(6); z > 0; z-- {
				sb.WriteByte('0')
			}
			for d := r.Intn(41); d > 0; d-- {
				sb.WriteByte(byte('0' + r.Intn(10)))
			}
		case 2:
			sb.WriteByte(byte(r.Intn(256)))
		default:
			sb.WriteString(alphabet[r.Intn(len(alphabet))])
		}
	}
	return sb.String()
}

// mutate returns a near-copy of s: same prefix, then a small change (case flip, zero insertion, digit change, cut).
func mutate(r *hx.Rand, s string) string {
	b := []byte(s)
	if len(b) == 0 {
		return randStr(r, 3)
	}
	i := r.Intn(len(b))
	switch r.Intn(8) {
	case 7: // Unicode (non-ASCII) case variant of a two-byte letter, or ASCII case flip elsewhere
		for j := 0; j+1 < len(b); j++ {
			if b[j] == 0xc3 && b[j+1] >= 0x80 {
				b[j+1] ^= 0x20
				break
			}
		}
		if b[i] >= 'a' && b[i] <= 'z' {
			b[i] -= 32
		} else if b[i] >= 'A' && b[i] <= 'Z' {
			b[i] += 32
		}
	case 0:
		if b[i] >= 'a' && b[i] <= 'z' {
			b[i] -= 32
		} else if b[i] >= 'A' && b[i] <= 'Z' {
			b[i] += 32
		} else {
			b[i] ^= 0x20
		}
	case 1:
		b = append(b[:i], append([]byte{'0'}, b[i:]...)...)
	case 2:
		b[i] = byte('0' + r.Intn(10))
	case 3:
		b = b[:i]
	case 4:
		b = append(b, randStr(r, 3)...)
	case 5:
		b = append(b[:i], b[i+1:]...)
	default:
		b[i] = byte(r.Intn(256))
	}
	return string(b)
}

func gen(r *hx.Rand, n int) []string {
	var out []string
	for i := 0; i < n; i++ {
		if i%10 == 9 { // sort case
			k := r.Intn(12)
			base := randStr(r, 6)
			items := make([]string, k)
			for j := range items {
				switch r.Intn(3) {
				case 0:
					items[j] = randStr(r, 6)
				case 1:
					items[j] = mutate(r, base)
				default:
					items[j] = base + randStr(r, 2)
				}
				items[j] = hx.Hex(items[j])
			}
			dir := "asc"
			if r.Bool() {
				dir = "desc"
			}
			lst := strings.Join(items, ",")
			if k == 0 {
				lst = "."
			}
			out = append(out, fmt.Sprintf("sort %s %s", dir, lst))
			continue
		}
		a := randStr(r, 8)
		var b, c string
		switch r.Intn(4) {
		case 0:
			b, c = randStr(r, 8), randStr(r, 8)
		case 1:
			b, c = mutate(r, a), mutate(r, a)
		case 2:
			p := randStr(r, 5)
			a, b, c = p+randStr(r, 3), p+randStr(r, 3), p+randStr(r, 3)
		default:
			b = mutate(r, a)
			c = mutate(r, b)
		}
		ci := 0
		if r.Bool() {
			ci = 1
		}
		out = append(out, fmt.Sprintf("cmp %d %s %s %s", ci, hx.Hex(a), hx.Hex(b), hx.Hex(c)))
	}
	return out
}

func run(c string) string {
	f := strings.Fields(c)
	switch f[0] {
	case "cmp":
		ci := f[1] == "1"
		a, b, cc := hx.UnHex(f[2]), hx.UnHex(f[3]), hx.UnHex(f[4])
		less := 0
		if txt.NaturalLess(a, b, ci) {
			less = 1
		}
		return fmt.Sprintf("%d %d %d %d %d %d %d", txt.NaturalCmp(a, b, ci), txt.NaturalCmp(b, cc, ci), txt.NaturalCmp(a, cc, ci),
			txt.NaturalCmp(b, a, ci), txt.NaturalCmp(cc, b, ci), txt.NaturalCmp(cc, a, ci), less)
	case "sort":
		var items []string
		if f[2] != "." {
			for _, h := range strings.Split(f[2], ",") {
				items = append(items, hx.UnHex(h))
			}
		}
		if f[1] == "asc" {
			txt.SortStringsNaturalAscending(items)
		} else {
			txt.SortStringsNaturalDescending(items)
		}
		hs := make([]string, len(items))
		for i, s := range items {
			hs[i] = hx.Hex(s)
		}
		cs := make([]string, 0, len(items))
		for i := 0; i+1 < len(items); i++ {
			cs = append(cs, fmt.Sprint(txt.NaturalCmp(items[i], items[i+1], true)))
		}
		l, cl := strings.Join(hs, ","), strings.Join(cs, ",")
		if l == "" {
			l = "."
		}
		if cl == "" {
			cl = "."
		}
		return l + " " + cl
	}
	return "BADCASE"
}

func main() { hx.Main(gen, run) }
