// C04 harness: String/Comma renderings and their parse-back (FromString, text, JSON bare and quoted, YAML), FromString on
// literals and arbitrary byte strings, CheckedAs/As to floats, for f64 and f128 in all sixteen configurations.
package main

import (
	"fmt"
	"math/big"
	"strings"

	"verifharness/hx"
)

type rec struct{ sb *strings.Builder }

func (r rec) do(name string, f func() string) {
	var res string
	func() {
		defer func() {
			if e := recover(); e != nil {
				res = "PANIC"
			}
		}()
		res = f()
	}()
	if res == "" {
		res = "<empty>"
	}
	r.sb.WriteString(name + "=" + res + " ")
}

var pow10 [17]int64

func init() {
	pow10[0] = 1
	for i := 1; i <= 16; i++ {
		pow10[i] = pow10[i-1] * 10
	}
}

func rawText(raw *big.Int, d int) string {
	neg := raw.Sign() < 0
	s := new(big.Int).Abs(raw).String()
	for len(s) <= d {
		s = "0" + s
	}
	s = s[:len(s)-d] + "." + s[len(s)-d:]
	if neg {
		s = "-" + s
	}
	return s
}

func genRaw(r *hx.Rand, m int64, wide bool) *big.Int {
	var v int64
	switch r.Intn(10) {
	case 0:
		v = []int64{0, 1, -1, m, -m, m - 1, 1 - m, m + 1, -m - 1, m / 2, -m / 2, m / 10, -m / 10, 999 * m, 1000 * m, 1000000 * m, -1000000 * m, 999999 * m}[r.Intn(18)]
	case 1:
		v = []int64{9223372036854775807, -9223372036854775808, -9223372036854775807, 9223372036854775806}[r.Intn(4)]
	case 2: // |integer part| = 0
		v = int64(r.Intn(int(min64(m, 1<<40))))
		if r.Bool() {
			v = -v
		}
	case 3: // whole numbers of various lengths (thousands separators)
		v = int64(r.BitLen64()>>uint(20+r.Intn(40))) * m
		if v/m*m != v {
			v = 1234567 * m
		}
		if r.Bool() {
			v = -v
		}
	case 4: // exactly representable binary fractions (CheckedAs succeeds): k / 2^j with few digits
		j := r.Intn(min(int(log10(m)), 10) + 1)
		v = int64(r.Range(-4000, 4000)) * (m >> uint(j)) // m = 2^D * 5^D, so m >> j is exact for j <= D
	default:
		v = int64(r.BitLen64() >> 1)
		if r.Bool() {
			v = -v
		}
		if r.Bool() {
			v >>= uint(r.Intn(45))
		}
	}
	b := big.NewInt(v)
	if wide && r.Chance(1, 3) {
		b.Mul(b, big.NewInt(int64(r.BitLen64()>>uint(1+r.Intn(62)))+1))
		lim := new(big.Int).Lsh(big.NewInt(1), 127)
		if b.CmpAbs(lim) >= 0 {
			b = new(big.Int).Sub(lim, big.NewInt(1))
			if r.Bool() {
				b = new(big.Int).Neg(lim)
			}
		}
	}
	return b
}

func min64(a, b int64) int64 {
	if a < b {
		return a
	}
	return b
}
func log10(m int64) int64 {
	n := int64(0)
	for m > 1 {
		m /= 10
		n++
	}
	return n
}

func genLiteral(r *hx.Rand) string {
	var sb strings.Builder
	switch r.Intn(6) {
	case 0:
		sb.WriteByte('-')
	case 1:
		sb.WriteByte('+')
	}
	ni := r.Intn(6)
	if r.Chance(1, 10) {
		ni = r.Range(17, 42)
	}
	for i := 0; i < ni; i++ {
		if r.Chance(1, 3) {
			sb.WriteByte('0')
		} else {
			sb.WriteByte(byte('0' + r.Intn(10)))
		}
	}
	if r.Chance(3, 4) {
		sb.WriteByte('.')
		nf := r.Intn(8)
		if r.Chance(1, 6) {
			nf = r.Range(15, 40)
		}
		for i := 0; i < nf; i++ {
			if r.Chance(1, 3) {
				sb.WriteByte('0')
			} else {
				sb.WriteByte(byte('0' + r.Intn(10)))
			}
		}
	}
	return sb.String()
}

func genJunk(r *hx.Rand) string {
	base := genLiteral(r)
	b := []byte(base)
	n := r.Range(1, 3)
	for i := 0; i < n; i++ {
		junk := []byte("-+.,eE \"_x0\x00\xff9")
		c := junk[r.Intn(len(junk))]
		if r.Chance(1, 5) {
			c = byte(r.Intn(256))
		}
		pos := r.Intn(len(b) + 1)
		switch r.Intn(3) {
		case 0:
			b = append(b[:pos], append([]byte{c}, b[pos:]...)...)
		case 1:
			if pos < len(b) {
				b[pos] = c
			}
		default:
			if pos < len(b) {
				b = append(b[:pos], b[pos+1:]...)
			}
		}
	}
	if r.Chance(1, 20) {
		b = nil
	}
	if r.Chance(1, 8) { // quoting: whole, unbalanced, empty, lone quote
		switch r.Intn(5) {
		case 0:
			return "\"" + string(b) + "\""
		case 1:
			return "\"" + string(b)
		case 2:
			return string(b) + "\""
		case 3:
			return "\""
		default:
			return "\"\""
		}
	}
	return string(b)
}

func gen(r *hx.Rand, n int) []string {
	var out []string
	for i := 0; i < n; i++ {
		d := r.Range(1, 16)
		ty := "f64"
		if r.Bool() {
			ty = "f128"
		}
		switch r.Intn(10) {
		case 0, 1, 2, 3:
			out = append(out, fmt.Sprintf("str %s %d %s", ty, d, genRaw(r, pow10[d], ty == "f128").String()))
		case 4, 5:
			out = append(out, fmt.Sprintf("chk %s %d %s", ty, d, genRaw(r, pow10[d], ty == "f128").String()))
		case 6, 7:
			out = append(out, fmt.Sprintf("parse %s %d %s", ty, d, hx.Hex(genLiteral(r))))
		default:
			out = append(out, fmt.Sprintf("parse %s %d %s", ty, d, hx.Hex(genJunk(r))))
		}
	}
	return append(out, floatSearch(r, 4*n)...)
}

// floatSearch looks for values on which As/CheckedAs to a float disagree with the correctly rounded nearest float (double
// rounding in the conversion shows on about one short decimal in a few thousand): candidates are short decimals k*10^j in a
// random configuration; the observation of each is computed right here and a candidate is emitted as an ordinary "chk" case
// - judged by the driver like any other - exactly when its own observation is anomalous. On a correct tree nothing is emitted.
func floatSearch(r *hx.Rand, n int) []string {
	var out []string
	for i := 0; i < n && len(out) < 12; i++ {
		d := r.Range(1, 16)
		ty := "f128"
		if r.Chance(1, 4) {
			ty = "f64"
		}
		nd := r.Range(1, 15) // 1 to 15 significant digits, every length equally likely
		k := pow10[nd-1] + int64(r.U64()%uint64(9*pow10[nd-1]))
		raw := new(big.Int).Mul(big.NewInt(k), big.NewInt(pow10[r.Intn(d+1)]))
		if ty == "f64" && !raw.IsInt64() {
			continue
		}
		if r.Chance(1, 5) {
			raw.Neg(raw)
		}
		c := fmt.Sprintf("chk %s %d %s", ty, d, raw.String())
		fields := map[string]string{}
		for _, kv := range strings.Fields(run(c)) {
			if a, b, ok := strings.Cut(kv, "="); ok {
				fields[a] = b
			}
		}
		t64, b64, _ := strings.Cut(fields["near64"], ":")
		t32, b32, _ := strings.Cut(fields["near32"], ":")
		st := fields["S"]
		if fields["as64"] != b64 || (fields["chk64"] != "ERR") != (t64 == st) || (fields["chk64"] != "ERR" && fields["chk64"] != b64) ||
			(fields["chk32"] != "ERR") != (t32 == st) || (fields["chk32"] != "ERR" && fields["chk32"] != b32) {
			out = append(out, c)
		}
	}
	return out
}

func run(c string) string {
	f := strings.Fields(c)
	if len(f) != 4 {
		return "BADCASE"
	}
	d := hx.Atoi(f[2])
	var sb strings.Builder
	r := rec{&sb}
	wide := f[1] == "f128"
	switch f[0] {
	case "str", "chk":
		raw, ok := new(big.Int).SetString(f[3], 10)
		if !ok {
			return "BADCASE"
		}
		switch {
		case f[0] == "str" && !wide:
			dStr64(d, r, raw.Int64())
		case f[0] == "str":
			dStr128(d, r, rawText(raw, d))
		case !wide:
			dChk64(d, r, raw.Int64())
		default:
			dChk128(d, r, rawText(raw, d), raw)
		}
	case "parse":
		if wide {
			dParse128(d, r, hx.UnHex(f[3]))
		} else {
			dParse64(d, r, hx.UnHex(f[3]))
		}
	default:
		return "BADCASE"
	}
	return strings.TrimRight(sb.String(), " ")
}

func main() { hx.Main(gen, run) }
