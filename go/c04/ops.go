// Code generated (static instantiation of the generic fixed-point API per configuration); DO NOT EDIT.
package main

import (
	"encoding/json"
	"fmt"
	"math"
	"math/big"
	"strconv"

	"github.com/richardwilkes/toolbox/xmath/fixed"
	"github.com/richardwilkes/toolbox/xmath/fixed/f128"
	"github.com/richardwilkes/toolbox/xmath/fixed/f64"
	"gopkg.in/yaml.v3"
)

type wrap64[T fixed.Dx] struct {
	V f64.Int[T]   `json:"v" yaml:"v"`
	L []f64.Int[T] `json:"l" yaml:"l"`
}
type wrap128[T fixed.Dx] struct {
	V f128.Int[T]   `json:"v" yaml:"v"`
	L []f128.Int[T] `json:"l" yaml:"l"`
}

func str64[T fixed.Dx](r rec, raw int64) {
	v := f64.Int[T](raw)
	s := v.String()
	r.do("S", func() string { return s })
	r.do("SS", func() string { return v.StringWithSign() })
	r.do("C", func() string { return v.Comma() })
	r.do("CS", func() string { return v.CommaWithSign() })
	back := func(t string) string {
		p, err := f64.FromString[T](t)
		if err != nil {
			return "ERR"
		}
		return fmt.Sprint(int64(p))
	}
	r.do("rt", func() string { return back(s) })
	r.do("rtSS", func() string { return back(v.StringWithSign()) })
	r.do("rtC", func() string { return back(v.Comma()) })
	r.do("rtCS", func() string { return back(v.CommaWithSign()) })
	r.do("text", func() string {
		b, err := v.MarshalText()
		if err != nil {
			return "ERR"
		}
		var p f64.Int[T]
		if err = p.UnmarshalText(b); err != nil {
			return "ERR"
		}
		var q f64.Int[T]
		if err = q.UnmarshalText([]byte("\"" + string(b) + "\"")); err != nil || q != p {
			return "ERRQ"
		}
		return fmt.Sprint(int64(p))
	})
	r.do("json", func() string {
		w := wrap64[T]{V: v, L: []f64.Int[T]{v, v}}
		b, err := json.Marshal(w)
		if err != nil {
			return "ERR"
		}
		var p wrap64[T]
		if err = json.Unmarshal(b, &p); err != nil || len(p.L) != 2 || p.L[0] != p.V || p.L[1] != p.V {
			return "ERR"
		}
		var q wrap64[T]
		if err = json.Unmarshal([]byte("{\"v\":\""+s+"\"}"), &q); err != nil || q.V != p.V {
			return "ERRQ"
		}
		return fmt.Sprint(int64(p.V))
	})
	r.do("yaml", func() string {
		w := wrap64[T]{V: v, L: []f64.Int[T]{v}}
		b, err := yaml.Marshal(w)
		if err != nil {
			return "ERR"
		}
		var p wrap64[T]
		if err = yaml.Unmarshal(b, &p); err != nil || len(p.L) != 1 || p.L[0] != p.V {
			return "ERR"
		}
		return fmt.Sprint(int64(p.V))
	})
}

func parse64[T fixed.Dx](r rec, s string) {
	r.do("P", func() string {
		p, err := f64.FromString[T](s)
		if err != nil {
			return "ERR"
		}
		return fmt.Sprint(int64(p))
	})
	// the unmarshal entry points see the same bytes (quoted or not)
	r.do("T", func() string {
		var p f64.Int[T]
		if err := p.UnmarshalText([]byte(s)); err != nil {
			return "ERR"
		}
		return fmt.Sprint(int64(p))
	})
	r.do("J", func() string {
		var p f64.Int[T]
		if err := p.UnmarshalJSON([]byte(s)); err != nil {
			return "ERR"
		}
		return fmt.Sprint(int64(p))
	})
}

func chk64[T fixed.Dx](r rec, raw int64, d int) {
	v := f64.Int[T](raw)
	r.do("S", func() string { return v.String() })
	rat := new(big.Rat).SetFrac(big.NewInt(raw), new(big.Int).Exp(big.NewInt(10), big.NewInt(int64(d)), nil))
	n64, _ := rat.Float64()
	n32, _ := rat.Float32()
	r.do("near64", func() string {
		return strconv.FormatFloat(n64, 'f', -1, 64) + ":" + fmt.Sprintf("%016x", math.Float64bits(n64))
	})
	r.do("near32", func() string {
		return strconv.FormatFloat(float64(n32), 'f', -1, 32) + ":" + fmt.Sprintf("%08x", math.Float32bits(n32))
	})
	r.do("chk64", func() string {
		f, err := f64.CheckedAs[T, float64](v)
		if err != nil {
			return "ERR"
		}
		return fmt.Sprintf("%016x", math.Float64bits(f))
	})
	r.do("chk32", func() string {
		f, err := f64.CheckedAs[T, float32](v)
		if err != nil {
			return "ERR"
		}
		return fmt.Sprintf("%08x", math.Float32bits(f))
	})
	r.do("as64", func() string { return fmt.Sprintf("%016x", math.Float64bits(f64.As[T, float64](v))) })
}

func str128[T fixed.Dx](r rec, text string) {
	v, err := f128.FromString[T](text)
	if err != nil {
		r.do("Build", func() string { return "ERR" })
		return
	}
	s := v.String()
	r.do("S", func() string { return s })
	r.do("SS", func() string { return v.StringWithSign() })
	r.do("C", func() string { return v.Comma() })
	r.do("CS", func() string { return v.CommaWithSign() })
	back := func(t string) string {
		p, e := f128.FromString[T](t)
		if e != nil {
			return "ERR"
		}
		return p.String()
	}
	r.do("rt", func() string { return back(s) })
	r.do("rtSS", func() string { return back(v.StringWithSign()) })
	r.do("rtC", func() string { return back(v.Comma()) })
	r.do("rtCS", func() string { return back(v.CommaWithSign()) })
	r.do("text", func() string {
		b, e := v.MarshalText()
		if e != nil {
			return "ERR"
		}
		var p f128.Int[T]
		if e = p.UnmarshalText(b); e != nil {
			return "ERR"
		}
		var q f128.Int[T]
		if e = q.UnmarshalText([]byte("\"" + string(b) + "\"")); e != nil || q != p {
			return "ERRQ"
		}
		return p.String()
	})
	r.do("json", func() string {
		w := wrap128[T]{V: v, L: []f128.Int[T]{v, v}}
		b, e := json.Marshal(w)
		if e != nil {
			return "ERR"
		}
		var p wrap128[T]
		if e = json.Unmarshal(b, &p); e != nil || len(p.L) != 2 || p.L[0] != p.V || p.L[1] != p.V {
			return "ERR"
		}
		var q wrap128[T]
		if e = json.Unmarshal([]byte("{\"v\":\""+s+"\"}"), &q); e != nil || q.V != p.V {
			return "ERRQ"
		}
		return p.V.String()
	})
	r.do("yaml", func() string {
		w := wrap128[T]{V: v, L: []f128.Int[T]{v}}
		b, e := yaml.Marshal(w)
		if e != nil {
			return "ERR"
		}
		var p wrap128[T]
		if e = yaml.Unmarshal(b, &p); e != nil || len(p.L) != 1 || p.L[0] != p.V {
			return "ERR"
		}
		return p.V.String()
	})
}

func parse128[T fixed.Dx](r rec, s string) {
	r.do("P", func() string {
		p, err := f128.FromString[T](s)
		if err != nil {
			return "ERR"
		}
		return p.String()
	})
	r.do("T", func() string {
		var p f128.Int[T]
		if err := p.UnmarshalText([]byte(s)); err != nil {
			return "ERR"
		}
		return p.String()
	})
	r.do("J", func() string {
		var p f128.Int[T]
		if err := p.UnmarshalJSON([]byte(s)); err != nil {
			return "ERR"
		}
		return p.String()
	})
}

func chk128[T fixed.Dx](r rec, text string, raw *big.Int, d int) {
	v, err := f128.FromString[T](text)
	if err != nil {
		r.do("Build", func() string { return "ERR" })
		return
	}
	r.do("S", func() string { return v.String() })
	rat := new(big.Rat).SetFrac(raw, new(big.Int).Exp(big.NewInt(10), big.NewInt(int64(d)), nil))
	n64, _ := rat.Float64()
	n32, _ := rat.Float32()
	r.do("near64", func() string {
		return strconv.FormatFloat(n64, 'f', -1, 64) + ":" + fmt.Sprintf("%016x", math.Float64bits(n64))
	})
	r.do("near32", func() string {
		return strconv.FormatFloat(float64(n32), 'f', -1, 32) + ":" + fmt.Sprintf("%08x", math.Float32bits(n32))
	})
	r.do("chk64", func() string {
		f, e := f128.CheckedAs[T, float64](v)
		if e != nil {
			return "ERR"
		}
		return fmt.Sprintf("%016x", math.Float64bits(f))
	})
	r.do("chk32", func() string {
		f, e := f128.CheckedAs[T, float32](v)
		if e != nil {
			return "ERR"
		}
		return fmt.Sprintf("%08x", math.Float32bits(f))
	})
	r.do("as64", func() string { return fmt.Sprintf("%016x", math.Float64bits(f128.As[T, float64](v))) })
}

func dStr64(d int, r rec, raw int64) {
	switch d {
	case 1:
		str64[fixed.D1](r, raw)
	case 2:
		str64[fixed.D2](r, raw)
	case 3:
		str64[fixed.D3](r, raw)
	case 4:
		str64[fixed.D4](r, raw)
	case 5:
		str64[fixed.D5](r, raw)
	case 6:
		str64[fixed.D6](r, raw)
	case 7:
		str64[fixed.D7](r, raw)
	case 8:
		str64[fixed.D8](r, raw)
	case 9:
		str64[fixed.D9](r, raw)
	case 10:
		str64[fixed.D10](r, raw)
	case 11:
		str64[fixed.D11](r, raw)
	case 12:
		str64[fixed.D12](r, raw)
	case 13:
		str64[fixed.D13](r, raw)
	case 14:
		str64[fixed.D14](r, raw)
	case 15:
		str64[fixed.D15](r, raw)
	case 16:
		str64[fixed.D16](r, raw)
	}
}

func dParse64(d int, r rec, s string) {
	switch d {
	case 1:
		parse64[fixed.D1](r, s)
	case 2:
		parse64[fixed.D2](r, s)
	case 3:
		parse64[fixed.D3](r, s)
	case 4:
		parse64[fixed.D4](r, s)
	case 5:
		parse64[fixed.D5](r, s)
	case 6:
		parse64[fixed.D6](r, s)
	case 7:
		parse64[fixed.D7](r, s)
	case 8:
		parse64[fixed.D8](r, s)
	case 9:
		parse64[fixed.D9](r, s)
	case 10:
		parse64[fixed.D10](r, s)
	case 11:
		parse64[fixed.D11](r, s)
	case 12:
		parse64[fixed.D12](r, s)
	case 13:
		parse64[fixed.D13](r, s)
	case 14:
		parse64[fixed.D14](r, s)
	case 15:
		parse64[fixed.D15](r, s)
	case 16:
		parse64[fixed.D16](r, s)
	}
}

func dChk64(d int, r rec, raw int64) {
	switch d {
	case 1:
		chk64[fixed.D1](r, raw, d)
	case 2:
		chk64[fixed.D2](r, raw, d)
	case 3:
		chk64[fixed.D3](r, raw, d)
	case 4:
		chk64[fixed.D4](r, raw, d)
	case 5:
		chk64[fixed.D5](r, raw, d)
	case 6:
		chk64[fixed.D6](r, raw, d)
	case 7:
		chk64[fixed.D7](r, raw, d)
	case 8:
		chk64[fixed.D8](r, raw, d)
	case 9:
		chk64[fixed.D9](r, raw, d)
	case 10:
		chk64[fixed.D10](r, raw, d)
	case 11:
		chk64[fixed.D11](r, raw, d)
	case 12:
		chk64[fixed.D12](r, raw, d)
	case 13:
		chk64[fixed.D13](r, raw, d)
	case 14:
		chk64[fixed.D14](r, raw, d)
	case 15:
		chk64[fixed.D15](r, raw, d)
	case 16:
		chk64[fixed.D16](r, raw, d)
	}
}

func dStr128(d int, r rec, text string) {
	switch d {
	case 1:
		str128[fixed.D1](r, text)
	case 2:
		str128[fixed.D2](r, text)
	case 3:
		str128[fixed.D3](r, text)
	case 4:
		str128[fixed.D4](r, text)
	case 5:
		str128[fixed.D5](r, text)
	case 6:
		str128[fixed.D6](r, text)
	case 7:
		str128[fixed.D7](r, text)
	case 8:
		str128[fixed.D8](r, text)
	case 9:
		str128[fixed.D9](r, text)
	case 10:
		str128[fixed.D10](r, text)
	case 11:
		str128[fixed.D11](r, text)
	case 12:
		str128[fixed.D12](r, text)
	case 13:
		str128[fixed.D13](r, text)
	case 14:
		str128[fixed.D14](r, text)
	case 15:
		str128[fixed.D15](r, text)
	case 16:
		str128[fixed.D16](r, text)
	}
}

func dParse128(d int, r rec, s string) {
	switch d {
	case 1:
		parse128[fixed.D1](r, s)
	case 2:
		parse128[fixed.D2](r, s)
	case 3:
		parse128[fixed.D3](r, s)
	case 4:
		parse128[fixed.D4](r, s)
	case 5:
		parse128[fixed.D5](r, s)
	case 6:
		parse128[fixed.D6](r, s)
	case 7:
		parse128[fixed.D7](r, s)
	case 8:
		parse128[fixed.D8](r, s)
	case 9:
		parse128[fixed.D9](r, s)
	case 10:
		parse128[fixed.D10](r, s)
	case 11:
		parse128[fixed.D11](r, s)
	case 12:
		parse128[fixed.D12](r, s)
	case 13:
		parse128[fixed.D13](r, s)
	case 14:
		parse128[fixed.D14](r, s)
	case 15:
		parse128[fixed.D15](r, s)
	case 16:
		parse128[fixed.D16](r, s)
	}
}

func dChk128(d int, r rec, text string, raw *big.Int) {
	switch d {
	case 1:
		chk128[fixed.D1](r, text, raw, d)
	case 2:
		chk128[fixed.D2](r, text, raw, d)
	case 3:
		chk128[fixed.D3](r, text, raw, d)
	case 4:
		chk128[fixed.D4](r, text, raw, d)
	case 5:
		chk128[fixed.D5](r, text, raw, d)
	case 6:
		chk128[fixed.D6](r, text, raw, d)
	case 7:
		chk128[fixed.D7](r, text, raw, d)
	case 8:
		chk128[fixed.D8](r, text, raw, d)
	case 9:
		chk128[fixed.D9](r, text, raw, d)
	case 10:
		chk128[fixed.D10](r, text, raw, d)
	case 11:
		chk128[fixed.D11](r, text, raw, d)
	case 12:
		chk128[fixed.D12](r, text, raw, d)
	case 13:
		chk128[fixed.D13](r, text, raw, d)
	case 14:
		chk128[fixed.D14](r, text, raw, d)
	case 15:
		chk128[fixed.D15](r, text, raw, d)
	case 16:
		chk128[fixed.D16](r, text, raw, d)
	}
}
