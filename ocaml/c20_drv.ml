(* C20 driver: K = model observation; S = the theorems' statements evaluated on the implementation's own answers. *)
let has_digit l = List.exists (fun b -> let i = int_of_z b in i >= 48 && i <= 57) l
let rec common_prefix a b = match a, b with x :: a', y :: b' when x = y -> 1 + common_prefix a' b' | _ -> 0

let run (c : string) (obs : string) : string * string * string =
  match words c with
  | ["cmp"; ci; ha; hb; hc] ->
    let ci = (ci = "1") in
    let a = bytes_of_hex ha and b = bytes_of_hex hb and cc = bytes_of_hex hc in
    let cmp x y = int_of_z (natural_cmp x y ci) in
    let less = if natural_less a b ci then 1 else 0 in
    let m = Printf.sprintf "%d %d %d %d %d %d %d" (cmp a b) (cmp b cc) (cmp a cc) (cmp b a) (cmp cc b) (cmp cc a) less in
    let v =
      (match List.map int_of_string (words obs) with
       | [ab; bc; ac; ba; cb; ca; ls] ->
         let errs = ref [] in
         let add s = errs := s :: !errs in
         if ab <> - ba || bc <> - cb || ac <> - ca then add "kind=antisymmetry";
         if ab <= 0 && bc <= 0 && not (ac <= 0) then add "kind=transitivity";
         if ab >= 0 && bc >= 0 && not (ac >= 0) then add "kind=transitivity";
         if ab = 0 && bc = 0 && ac <> 0 then add "kind=transitivity";
         if (ab = 0) <> (a = b) || (bc = 0) <> (b = cc) || (ac = 0) <> (a = cc) then add "kind=zero-iff-identical";
         if List.exists (fun x -> x < -1 || x > 1) [ab; bc; ac; ba; cb; ca] then add "kind=range";
         if (ls = 1) <> (ab < 0) then add "kind=less-disagrees";
         if !errs = [] then "ok" else "FAIL " ^ String.concat "," (List.rev !errs)
       | _ -> "FAIL kind=malformed-observation"
       | exception _ -> "FAIL kind=malformed-observation") in
    let cl =
      (if has_digit a && has_digit b then "digits" else "nodigits") ^
      (if common_prefix a b > 0 then "+prefix" else "") ^ (if ci then "+ci" else "+cs") in
    (m, v, cl)
  | ["sort"; dir; lst] ->
    let items = if lst = "." then [] else List.map bytes_of_hex (String.split_on_char ',' lst) in
    let sorted = if dir = "asc" then sort_asc items else sort_desc items in
    let m = if sorted = [] then "." else String.concat "," (List.map hex_of_bytes sorted) in
    let v =
      (match words obs with
       | [out; cs] ->
         let outl = if out = "." then [] else List.map bytes_of_hex (String.split_on_char ',' out) in
         let csl = if cs = "." then [] else List.map int_of_string (String.split_on_char ',' cs) in
         let perm = List.sort compare (List.map hex_of_bytes outl) = List.sort compare (List.map hex_of_bytes items) in
         let ordered = List.for_all (fun x -> if dir = "asc" then x <= 0 else x >= 0) csl
                       && List.length csl = max 0 (List.length outl - 1) in
         if not perm then "FAIL kind=sort-not-permutation" else if not ordered then "FAIL kind=sort-not-sorted" else "ok"
       | _ -> "FAIL kind=malformed-observation"
       | exception _ -> "FAIL kind=malformed-observation") in
    (* K compares only the list part of the observation *)
    let m' = m ^ " " ^ (match words obs with [_; cs] -> cs | _ -> "?") in
    (m', v, "sort-" ^ dir ^ (if List.length items >= 2 then "" else "-trivial"))
  | _ -> ("BADCASE", "ok", "bad")

let () = drive run
