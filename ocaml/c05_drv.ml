(* C05 driver (translation validation: there is no model of the sweep). For rectilinear integer inputs the result must be
   rectilinear with integer vertices and pass the extracted validator, whose soundness theorem (C05_validator_sound) then gives
   pointwise correctness at every rational point of the plane. For general-position inputs the extracted exact membership
   function is evaluated at sample points that keep a margin from every edge of A, B and the result (a test with a verified
   oracle). Also: no panic, operands untouched, empty region -> empty polygon. *)
let parse_num (s : string) : BQ.t = BQ.of_string s
let parse_poly (s : string) : (BQ.t * BQ.t) list list =
  if s = "-" || s = "" then [] else
  List.map (fun c -> List.map (fun v -> match String.split_on_char ',' v with [x; y] -> (parse_num x, parse_num y) | _ -> failwith "vertex")
    (List.filter (fun w -> w <> "") (String.split_on_char '_' c))) (String.split_on_char ';' s)
let parse_in (s : string) = parse_poly (String.concat "_" (words s))
let is_int q = BZ.equal (BQ.den q) BZ.one
let to_z_poly scale p = List.map (List.map (fun (x, y) -> (z_of_bz (BQ.num (BQ.mul x scale)), z_of_bz (BQ.num (BQ.mul y scale))))) p
let op_of = function "union" -> OUnion | "intersect" -> OIntersect | "sub" -> OSub | _ -> OXor
let dist_seg (px, py) (x1, y1) (x2, y2) =
  let dx = x2 -. x1 and dy = y2 -. y1 in
  let l2 = dx *. dx +. dy *. dy in
  let t = if l2 = 0. then 0. else max 0. (min 1. (((px -. x1) *. dx +. (py -. y1) *. dy) /. l2)) in
  let cx = x1 +. t *. dx and cy = y1 +. t *. dy in sqrt ((px -. cx) ** 2. +. (py -. cy) ** 2.)
let edges_f p = List.concat_map (fun c -> match c with [] -> [] | f :: _ ->
  let rec go = function [] -> [] | [v] -> [(v, f)] | v :: (w :: _ as r) -> (v, w) :: go r in go c) (List.map (List.map (fun (x, y) -> (BQ.to_float x, BQ.to_float y))) p)

(* Three or more input edges through one point strictly inside a scan beam (a point whose y is the y of no input vertex): the
   configuration on which the sweep's ordering of simultaneous intersections is decided by rounding noise (known finding F-C05-1).
   Exact rational arithmetic on the input polygons. *)
let edges_q (p : (BQ.t * BQ.t) list list) = List.concat_map (fun c -> match c with [] -> [] | f :: _ ->
  let rec go = function [] -> [] | [v] -> [(v, f)] | v :: (w :: _ as r) -> (v, w) :: go r in go c) p
let concurrent_inside_a_beam (a : (BQ.t * BQ.t) list list) (b : (BQ.t * BQ.t) list list) : bool =
  let es = Array.of_list (List.filter (fun ((_, y1), (_, y2)) -> not (BQ.equal y1 y2)) (edges_q a @ edges_q b)) in
  let ys = List.concat_map (List.map snd) (a @ b) in
  let n = Array.length es in
  let tbl = Hashtbl.create 64 in
  let between v lo hi = BQ.leq (BQ.min lo hi) v && BQ.leq v (BQ.max lo hi) in
  for i = 0 to n - 1 do for j = i + 1 to n - 1 do
    let ((x1, y1), (x2, y2)) = es.(i) and ((x3, y3), (x4, y4)) = es.(j) in
    let d1x = BQ.sub x2 x1 and d1y = BQ.sub y2 y1 and d2x = BQ.sub x4 x3 and d2y = BQ.sub y4 y3 in
    let den = BQ.sub (BQ.mul d1x d2y) (BQ.mul d1y d2x) in
    if not (BQ.equal den BQ.zero) then begin
      let t = BQ.div (BQ.sub (BQ.mul (BQ.sub x3 x1) d2y) (BQ.mul (BQ.sub y3 y1) d2x)) den in
      let px = BQ.add x1 (BQ.mul t d1x) and py = BQ.add y1 (BQ.mul t d1y) in
      if between px x1 x2 && between py y1 y2 && between px x3 x4 && between py y3 y4 && not (List.exists (BQ.equal py) ys) then begin
        let key = BQ.to_string px ^ "," ^ BQ.to_string py in
        let cur = try Hashtbl.find tbl key with Not_found -> [] in
        Hashtbl.replace tbl key (List.sort_uniq compare (i :: j :: cur))
      end
    end
  done done;
  Hashtbl.fold (fun _ l acc -> acc || List.length l >= 3) tbl false

let run (c : string) (obs : string) : string * string * string =
  let errs = ref [] in
  let add k = if not (List.mem k !errs) then errs := k :: !errs in
  (* a panic is identified by its call site: "P@f<g" gives kind=panic.f.g (the two innermost frames of package poly) *)
  if String.length obs >= 1 && obs.[0] = 'P' then
    add ("kind=panic" ^ (if String.length obs > 2 then "." ^ String.map (fun ch -> if ch = '<' then '.' else ch) (String.sub obs 2 (String.length obs - 2)) else ""));
  if obs = "HANG" then add "kind=hang";
  let verdict () = if !errs = [] then "ok" else "FAIL " ^ String.concat "," (List.rev !errs) in
  match String.index_opt c ' ' with
  | None -> ("BADCASE", "ok", "bad")
  | Some i ->
    let kind = String.sub c 0 i in
    let rest = String.sub c (i + 1) (String.length c - i - 1) in
    (match String.split_on_char ' ' rest with
     | _ft :: op :: polys ->
       let ab = String.concat " " polys in
       let (a_s, b_s) = (match String.index_opt ab '|' with Some j -> (String.sub ab 0 j, String.sub ab (j + 1) (String.length ab - j - 1)) | None -> (ab, "")) in
       let unit_scale = if kind = "gen" then BQ.of_ints 1 8 else BQ.one in
       let sc p = List.map (List.map (fun (x, y) -> (BQ.mul x unit_scale, BQ.mul y unit_scale))) p in
       let a = sc (parse_in (String.trim a_s)) and b = sc (parse_in (String.trim b_s)) in
       let ws = words obs in
       let field k = let pre = k ^ "=" in let n = String.length pre in
         let rec go = function [] -> "" | w :: r -> if String.length w >= n && String.sub w 0 n = pre then String.sub w n (String.length w - n) else go r in go ws in
       if !errs = [] then begin
         if field "mut" <> "0" then add "kind=operand-modified";
         let r = (try parse_poly (field "R") with _ -> add "kind=malformed-observation"; []) in
         let o = op_of op in
         if kind = "rect" then begin
           let all_int = List.for_all (List.for_all (fun (x, y) -> is_int x && is_int y)) r in
           if not all_int then add "kind=result-vertex-off-the-lattice"
           else begin
             let za = to_z_poly BQ.one a and zb = to_z_poly BQ.one b and zr = to_z_poly BQ.one r in
             if not (m_rectilinear zr) then add "kind=result-not-rectilinear"
             else if not (m_validate za zb zr o) then add "kind=result-is-not-the-pointwise-combination"
             else if field "empty" = "0" && zr <> [] then begin
               (* empty region -> empty polygon: the region is empty iff the validator also accepts the empty result *)
               if m_validate za zb [] o then add "kind=empty-region-but-non-empty-polygon"
             end
           end
         end else begin
           (* common power-of-two scale making every vertex an integer *)
           let dens = List.concat_map (List.concat_map (fun (x, y) -> [BQ.den x; BQ.den y])) (a @ b @ r) in
           let scale = List.fold_left (fun m d -> if BZ.gt d m then d else m) (BZ.of_int 64) dens in
           let sq = BQ.of_bigint scale in
           let za = to_z_poly sq a and zb = to_z_poly sq b and zr = to_z_poly sq r in
           let es = edges_f a @ edges_f b @ edges_f r in
           let seed = ref (Hashtbl.hash c) in
           let next () = seed := (!seed * 1103515245 + 12345) land 0x3fffffff; !seed in
           let tested = ref 0 in
           for _ = 1 to 120 do
             let pa = (next () mod 1024) - 384 and pb = (next () mod 1024) - 384 in       (* sixty-fourths: -6 .. 10 *)
             let fp = (float_of_int pa /. 64., float_of_int pb /. 64.) in
             if List.for_all (fun (v, w) -> dist_seg fp v w > 0.02) es then begin
               incr tested;
               let q = m_qpt (z_of_bz (BZ.mul (BZ.of_int pa) scale)) (z_of_bz (BZ.mul (BZ.of_int pb) scale)) (z_of_int 64) in
               if m_inside zr q <> m_combine o (m_inside za q) (m_inside zb q) then add "kind=sample-point-disagrees-with-the-pointwise-combination"
             end
           done;
           ignore tested
         end
       end;
       (* failures on inputs with concurrent edges inside a scan beam carry that fact in their kind (see known_findings.txt) *)
       let conc = lazy (concurrent_inside_a_beam a b) in
       errs := List.map (fun k ->
         if (String.length k >= 10 && String.sub k 0 10 = "kind=panic" || k = "kind=sample-point-disagrees-with-the-pointwise-combination") && Lazy.force conc
         then k ^ ".concurrent-edges" else k) !errs;
       (obs, verdict (), kind ^ "-" ^ op ^ (if kind = "gen" && Lazy.force conc then "+concurrent" else ""))
     | _ -> ("BADCASE", "ok", "bad"))

let () = drive run
