#!/bin/bash
# build.sh <cxx>  — extract the model of one property and build its driver into /verif/build/drv-<cxx>
set -e
P=$1                                   # e.g. c20
U=$(echo "$P" | tr a-z A-Z)            # C20
V=/verif
B=$V/build/ocaml/$P
mkdir -p "$B"
cd "$B"
rm -f ./*.ml ./*.mli ./*.cm* ./*.o
timeout 900 coqc -Q $V/coq Verif $V/coq/extract/Extract$U.v -o $B/Extract$U.vo >/dev/null
rm -f $V/coq/extract/.Extract$U.aux $V/coq/extract/Extract$U.glob
{ echo "module BZ = Z"; echo "module BQ = Q"; echo "open $U"; cat $V/ocaml/common.ml $V/ocaml/${P}_drv.ml; } > ${P}_main.ml
ocamlfind ocamlopt -O3 -w -a -package zarith,str -linkpkg $P.mli $P.ml ${P}_main.ml -o $V/build/drv-$P 2>/dev/null || \
ocamlfind ocamlopt -w -a -package zarith,str -linkpkg $P.mli $P.ml ${P}_main.ml -o $V/build/drv-$P
