(* C18 driver. Rationals cross the boundary as "num/den"; BQ (zarith) is used to normalise and for the independent spec side. *)
let q_of_string (s : string) : q =
  let r = BQ.of_string s in { qnum = z_of_bz (BQ.num r); qden = pos_of_bz (BQ.den r) }
let bq_of_q (x : q) : BQ.t = BQ.make (bz_of_z x.qnum) (bz_of_pos x.qden)
let string_of_q (x : q) : string = let r = bq_of_q x in BZ.to_string (BQ.num r) ^ "/" ^ BZ.to_string (BQ.den r)
let b2s b = if b then "1" else "0"
let rect_of l = match l with [x; y; w; h] -> { rx = x; ry = y; rw = w; rh = h } | _ -> failwith "rect"
let string_of_rect r = String.concat " " (List.map string_of_q [r.rx; r.ry; r.rw; r.rh])
let rec take n l = if n = 0 then [] else match l with x :: r -> x :: take (n - 1) r | [] -> []
let rec drop n l = if n = 0 then l else match l with _ :: r -> drop (n - 1) r | [] -> []
let approx (a : BQ.t) (b : BQ.t) : bool =
  BQ.leq (BQ.abs (BQ.sub a b)) (BQ.mul (BQ.of_string "1/1000000000") (BQ.add BQ.one (BQ.abs b)))

(* independent coordinate characterisations (spec side) *)
let sp_nonempty (x, y, w, h) = BQ.gt w BQ.zero && BQ.gt h BQ.zero
let sp_in (px, py) ((x, y, w, h) as r) = sp_nonempty r && BQ.leq x px && BQ.leq y py && BQ.lt px (BQ.add x w) && BQ.lt py (BQ.add y h)
let sp_contains ((ax, ay, aw, ah) as a) ((bx, by, bw, bh) as b) =
  sp_nonempty a && sp_nonempty b && BQ.leq ax bx && BQ.leq ay by && BQ.leq (BQ.add bx bw) (BQ.add ax aw) && BQ.leq (BQ.add by bh) (BQ.add ay ah)
let sp_intersects ((ax, ay, aw, ah) as a) ((bx, by, bw, bh) as b) =
  sp_nonempty a && sp_nonempty b && BQ.lt ax (BQ.add bx bw) && BQ.lt ay (BQ.add by bh) && BQ.lt bx (BQ.add ax aw) && BQ.lt by (BQ.add ay ah)
let tup l = match List.map BQ.of_string l with [x; y; w; h] -> (x, y, w, h) | _ -> failwith "tup"

let run (c : string) (obs : string) : string * string * string =
  let f = words c in
  let o = words obs in
  match f with
  | "rect" :: kind :: rest ->
    let v = List.map q_of_string rest in
    let a = rect_of (take 4 v) and b = rect_of (take 4 (drop 4 v)) in
    let px = List.nth v 8 and py = List.nth v 9 in
    let i = intersect a b and u = union a b in
    let m = String.concat " " [b2s (empty a); b2s (empty b); b2s (pt_in px py a); b2s (pt_in px py b); b2s (contains a b); b2s (contains b a);
      b2s (intersects a b); b2s (intersects b a); string_of_rect i; string_of_rect u; b2s (pt_in px py i); b2s (pt_in px py u);
      b2s (contains u a); b2s (contains u b); "1"] in
    let verdict =
      (try
        let ta = tup (take 4 rest) and tb = tup (take 4 (drop 4 rest)) in
        let p = (BQ.of_string (List.nth rest 8), BQ.of_string (List.nth rest 9)) in
        let g k = List.nth o k in
        let errs = ref [] in
        let chk name cond = if not cond then errs := ("kind=" ^ name) :: !errs in
        chk "empty" (g 0 = b2s (not (sp_nonempty ta)) && g 1 = b2s (not (sp_nonempty tb)));
        chk "point-in" (g 2 = b2s (sp_in p ta) && g 3 = b2s (sp_in p tb));
        chk "contains" (g 4 = b2s (sp_contains ta tb) && g 5 = b2s (sp_contains tb ta));
        chk "intersects" (g 6 = b2s (sp_intersects ta tb) && g 7 = b2s (sp_intersects tb ta));
        let ti = tup (take 4 (drop 8 o)) and tu = tup (take 4 (drop 12 o)) in
        chk "intersect-points" (g 16 = b2s (sp_in p ta && sp_in p tb) && sp_in p ti = (sp_in p ta && sp_in p tb));
        chk "intersect-inside" ((not (sp_nonempty ti)) = not (sp_intersects ta tb) && (not (sp_nonempty ti) || (sp_contains ta ti && sp_contains tb ti)));
        chk "union-covers" ((not (sp_nonempty ta) || sp_contains tu ta) && (not (sp_nonempty tb) || sp_contains tu tb)
                            && g 18 = b2s (sp_nonempty ta) && g 19 = b2s (sp_nonempty tb));
        (* least: each side of the union touches a side of an operand *)
        (let (ux, uy, uw, uh) = tu in
         let ne = List.filter sp_nonempty [ta; tb] in
         if ne = [] then chk "union-least" (not (sp_nonempty tu))
         else begin
           let mn f = List.fold_left (fun acc r -> BQ.min acc (f r)) (f (List.hd ne)) ne in
           let mx f = List.fold_left (fun acc r -> BQ.max acc (f r)) (f (List.hd ne)) ne in
           chk "union-least" (BQ.equal ux (mn (fun (x, _, _, _) -> x)) && BQ.equal uy (mn (fun (_, y, _, _) -> y))
             && BQ.equal (BQ.add ux uw) (mx (fun (x, _, w, _) -> BQ.add x w)) && BQ.equal (BQ.add uy uh) (mx (fun (_, y, _, h) -> BQ.add y h)))
         end);
        chk "union-point" (g 17 = b2s (sp_in p tu) && ((not (sp_in p ta || sp_in p tb)) || g 17 = "1"));
        chk "operand-modified" (g 20 = "1");
        if !errs = [] then "ok" else "FAIL " ^ String.concat "," (List.rev !errs)
      with _ -> "FAIL kind=malformed-observation") in
    let cls = (if kind = "i" then "int" else "float") ^
      (if empty a || empty b then "+empty" else if contains a b || contains b a then "+nested" else if intersects a b then "+overlap" else "+disjoint") in
    (m, verdict, cls)
  | "mat" :: rest ->
    let v = List.map q_of_string rest in
    let nth k = List.nth v k in
    let mk k = { sx = nth k; kx = nth (k + 1); tx = nth (k + 2); ky = nth (k + 3); sy = nth (k + 4); ty = nth (k + 5) } in
    let m = mk 0 and n = mk 6 in
    let txv = nth 12 and tyv = nth 13 and sxv = nth 14 and syv = nth 15 in
    let p = (nth 17, nth 18) in
    (match o with
     | ss :: cs :: results when List.length results = 22 ->
       let s = q_of_string ss and co = q_of_string cs in
       let mp = m_transform m p in
       let pts = [ m_transform (m_multiply m n) p; m_transform n mp;
                   m_transform (m_translate m txv tyv) p; m_transform (translation txv tyv) mp;
                   m_transform (m_scale m sxv syv) p; m_transform (scaling sxv syv) mp;
                   m_transform (m_rotate m s co) p; m_transform (rotation s co) mp;
                   m_transform identity p; m_transform (m_multiply m identity) p; m_transform (m_multiply identity m) p ] in
       let exact = List.concat_map (fun (x, y) -> [string_of_q x; string_of_q y]) pts in
       (* rotation entries (indexes 12..15) are compared with a relative tolerance: sin/cos products are rounded in Go *)
       let model = List.mapi (fun i e ->
           if i >= 12 && i <= 15 then (let got = List.nth results i in if approx (BQ.of_string got) (BQ.of_string e) then got else e) else e) exact in
       let r k = BQ.of_string (List.nth results k) in
       let errs = ref [] in
       let chk name cond = if not cond then errs := ("kind=" ^ name) :: !errs in
       chk "multiply-composition" (BQ.equal (r 0) (r 2) && BQ.equal (r 1) (r 3));
       chk "translate-composition" (BQ.equal (r 4) (r 6) && BQ.equal (r 5) (r 7));
       chk "scale-composition" (BQ.equal (r 8) (r 10) && BQ.equal (r 9) (r 11));
       chk "rotate-composition" (approx (r 12) (r 14) && approx (r 13) (r 15));
       chk "identity" (BQ.equal (r 16) (bq_of_q (fst p)) && BQ.equal (r 17) (bq_of_q (snd p)));
       chk "multiply-identity" (BQ.equal (r 18) (bq_of_q (fst mp)) && BQ.equal (r 19) (bq_of_q (snd mp)) && BQ.equal (r 20) (r 18) && BQ.equal (r 21) (r 19));
       (String.concat " " (ss :: cs :: model), (if !errs = [] then "ok" else "FAIL " ^ String.concat "," (List.rev !errs)), "matrix")
     | _ -> ("MODEL-NEEDS-SINCOS", "FAIL kind=malformed-observation", "matrix"))
  | "poly" :: ncs :: rest ->
    let nc = int_of_string ncs in
    let rec read_contours k l acc =
      if k = 0 then (List.rev acc, l) else
      match l with
      | nps :: r -> let np = int_of_string nps in
        let rec pts j l acc = if j = 0 then (List.rev acc, l) else
          (match l with x :: y :: r -> pts (j - 1) r ((q_of_string x, q_of_string y) :: acc) | _ -> failwith "pts") in
        let (c, r') = pts np r [] in read_contours (k - 1) r' (c :: acc)
      | [] -> failwith "contours" in
    let (pg, rest') = read_contours nc rest [] in
    let px = q_of_string (List.nth rest' 0) and py = q_of_string (List.nth rest' 1) in
    let mv = List.map q_of_string (drop 2 rest') in
    let m = { sx = List.nth mv 0; kx = List.nth mv 1; tx = List.nth mv 2; ky = List.nth mv 3; sy = List.nth mv 4; ty = List.nth mv 5 } in
    let onedge = List.exists (fun c -> List.exists (fun e -> on_edge px py e) (edges c)) pg in
    (* impl sections *)
    let secs = List.map words (split_on " | " obs) in
    let impl_c = (match secs with s :: _ -> s | [] -> []) in
    let impl_contains k = (try List.nth impl_c (5 * k) with _ -> "?") in
    let per = List.concat (List.mapi (fun k c ->
        [ (if onedge then impl_contains k else b2s (c_contains c px py)); string_of_rect (c_bounds c) ]) pg) in
    let impl_p = (match secs with _ :: s :: _ -> s | _ -> []) in
    let pc = if onedge then (try List.nth impl_p 0 with _ -> "?") else b2s (p_contains pg px py) in
    let pe = if onedge then (try List.nth impl_p 1 with _ -> "?") else b2s (p_contains_evenodd pg px py) in
    let tr = p_transform pg m in
    let trs = List.concat_map (fun c -> string_of_int (List.length c) :: List.concat_map (fun (x, y) -> [string_of_q x; string_of_q y]) c) tr in
    let model = String.concat " " (per @ ["|"; pc; pe; string_of_rect (p_bounds pg); "|"] @ trs @ ["|"; "1"]) in
    let verdict =
      (try
        let errs = ref [] in
        let chk name cond = if not cond then errs := ("kind=" ^ name) :: !errs in
        if obs = "PANIC" then chk "panic" false else begin
          List.iteri (fun k c ->
            if not onedge then chk "contour-contains-crossing-parity" (impl_contains k = b2s (int_of_nat (crossings c px py) mod 2 = 1));
            let br = rect_of (List.map q_of_string (take 4 (drop (5 * k + 1) impl_c))) in
            chk "bounds-encloses-vertices" (List.for_all (fun (x, y) -> pt_in x y br) c)) pg;
          let cs = List.mapi (fun k _ -> impl_contains k = "1") pg in
          chk "polygon-contains" (List.nth impl_p 0 = b2s (List.exists (fun x -> x) cs));
          chk "polygon-evenodd" (List.nth impl_p 1 = b2s (List.length (List.filter (fun x -> x) cs) mod 2 = 1));
          let pb = rect_of (List.map q_of_string (take 4 (drop 2 impl_p))) in
          chk "polygon-bounds-encloses-vertices" (List.for_all (fun c -> List.for_all (fun (x, y) -> pt_in x y pb) c) pg);
          (match secs with
           | [_; _; t; u] -> chk "transform-maps-vertices" (t = trs); chk "operand-modified" (u = ["1"])
           | _ -> chk "malformed-observation" false)
        end;
        if !errs = [] then "ok" else "FAIL " ^ String.concat "," (List.rev !errs)
      with _ -> "FAIL kind=malformed-observation") in
    let total = List.fold_left (fun a c -> a + List.length c) 0 pg in
    (model, verdict, if total < 3 then "poly-trivial" else if onedge then "poly-on-edge" else "poly")
  | _ -> ("BADCASE", "ok", "bad")

let () = drive run
