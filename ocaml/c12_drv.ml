(* C12 driver. K: the model's file map after every operation (and n = len, no error). S, on the implementation's own
   directory listings: the retained stream (path-N ... path-1, path) is a suffix of everything written, made of whole writes;
   what disappears from it is exactly the oldest file at a rotation that the size rule required; the current file ends with the
   write just made; no file beyond MaxBackups appears; a file exceeds MaxSize only if it is a single write; Close/Sync change
   nothing. Concurrent cases: every record whole, once, each writer's records in order, and the files equal to the model's
   replay of the order in which the writes took effect. *)
type runs = (int * int) list
let parse_runs (s : string) : runs =
  if s = "" then [] else List.map (fun p -> match String.split_on_char '*' p with [a; b] -> (int_of_string a, int_of_string b) | _ -> failwith "run") (String.split_on_char '.' s)
let show_runs (r : runs) = String.concat "." (List.map (fun (a, b) -> Printf.sprintf "%d*%d" a b) r)
let show_files (f : (int * runs) list) =
  String.concat "," (List.map (fun (k, r) -> Printf.sprintf "%d=%s" k (show_runs r)) (List.sort compare f))
let to_content (r : runs) = List.map (fun (a, b) -> (z_of_int a, z_of_int b)) r
let of_content c = List.map (fun (a, b) -> (int_of_z a, int_of_z b)) c
let of_fs f = List.map (fun (k, c) -> (int_of_nat k, of_content c)) f
(* listing "0=..,1=..,?x" -> files, odd names *)
let parse_listing (s : string) : (int * runs) list * string list =
  if s = "" then ([], []) else
  List.fold_left (fun (fs, odd) item ->
    if item <> "" && item.[0] = '?' then (fs, item :: odd) else
    match String.index_opt item '=' with
    | Some i -> (fs @ [(int_of_string (String.sub item 0 i), parse_runs (String.sub item (i + 1) (String.length item - i - 1)))], odd)
    | None -> (fs, item :: odd)) ([], []) (String.split_on_char ',' s)
let size (r : runs) = List.fold_left (fun a (_, n) -> a + n) 0 r
let lookup fs k = try List.assoc k fs with Not_found -> []
let stream nb fs = List.concat (List.init (nb + 1) (fun i -> lookup fs (nb - i)))
let rec is_suffix (s : runs) (l : runs) = s = l || (match l with [] -> false | _ :: t -> is_suffix s t)
let rec drop n l = if n <= 0 then l else match l with [] -> [] | _ :: t -> drop (n - 1) t

let run (c : string) (obs : string) : string * string * string =
  let toks = List.filter (fun o -> words o <> []) (String.split_on_char ';' c) in
  let max_size = ref 0 and max_backups = ref 0 and pre = ref [] and ops = ref [] and par = ref None in
  List.iter (fun o -> match words o with
    | ["cfg"; a; b] -> max_size := int_of_string a; max_backups := int_of_string b
    | ["pre"; k] -> pre := (int_of_string k, []) :: !pre
    | ["pre"; k; body] -> pre := (int_of_string k, parse_runs body) :: !pre
    | ["w"; id; sz] -> ops := `W (int_of_string id, int_of_string sz) :: !ops
    | ["c"] -> ops := `C :: !ops | ["s"] -> ops := `S :: !ops
    | ["par"; w; n; sz] -> par := Some (int_of_string w, int_of_string n, int_of_string sz)
    | _ -> ()) toks;
  let ops = List.rev !ops and pre = List.rev !pre in
  let nb = max 0 !max_backups in
  let pre_fs = List.map (fun (k, r) -> (nat_of_int k, to_content r)) pre in
  let errs = ref [] in
  let add k = if not (List.mem k !errs) then errs := k :: !errs in
  let steps = if obs = "" then [] else split_on " / " obs in
  let parse_step s = match String.index_opt s '|' with
    | Some i -> (String.sub s 0 i, parse_listing (String.sub s (i + 1) (String.length s - i - 1)))
    | None -> (s, ([], [])) in
  match !par with
  | Some (writers, records, sz) ->
    (* concurrent: derive the order from the observed stream, replay it on the model *)
    (match steps with
     | [s] ->
       let (hd, (fs, odd)) = parse_step s in
       if hd <> "n=0,e=0" then add "kind=concurrent-write-failed";
       if odd <> [] then add "kind=unexpected-directory-entry";
       let top = List.fold_left (fun a (k, _) -> max a k) 0 fs in
       let st = stream top fs in
       List.iter (fun (_, n) -> if n <> sz then add "kind=torn-or-merged-record") st;
       let ids = List.map fst st in
       if List.length (List.sort_uniq compare ids) <> List.length ids then add "kind=duplicated-record";
       if List.sort compare ids <> List.init (writers * records) (fun i -> i + 1) then add "kind=lost-or-foreign-record";
       for w = 0 to writers - 1 do
         let mine = List.filter (fun id -> (id - 1) / records = w) ids in
         if mine <> List.sort compare mine then add "kind=writer-order-not-preserved"
       done;
       if top > nb then add "kind=too-many-backups";
       let mops = List.map (fun (id, n) -> OWrite (z_of_int id, z_of_int n)) st in
       let model = (match List.rev (m_run (z_of_int !max_size) (nat_of_int nb) (Some (m_start [])) mops) with
         | Some f :: _ -> "n=0,e=0|" ^ show_files (of_fs f) | None :: _ -> "HANG" | [] -> "n=0,e=0|") in
       (model, (if !errs = [] then "ok" else "FAIL " ^ String.concat "," (List.rev !errs)), "concurrent")
     | _ -> ((if obs = "HANG" then "n/a" else "n=0,e=0|?"), "FAIL kind=malformed-observation", "concurrent"))
  | None ->
    let mops = List.map (function `W (id, sz) -> OWrite (z_of_int id, z_of_int sz) | `C -> OClose | `S -> OSync) ops in
    let mres = m_run (z_of_int !max_size) (nat_of_int nb) (Some (m_start pre_fs)) mops in
    let model = String.concat " / " (List.map2 (fun o r -> match r with
      | None -> "HANG"
      | Some f -> Printf.sprintf "n=%d,e=0|%s" (match o with `W (_, sz) -> sz | _ -> 0) (show_files (of_fs f))) ops mres) in
    let model = if List.exists (fun r -> r = None) mres then "HANG" else model in
    (* S *)
    let rotations = ref 0 in
    if List.length steps <> List.length ops then (if obs <> "HANG" && obs <> "CRASH" then add "kind=malformed-observation")
    else begin
      let prev = ref pre and history = ref (stream nb pre) in
      List.iter2 (fun o s ->
        let (hd, (fs, odd)) = parse_step s in
        if odd <> [] then add "kind=unexpected-directory-entry";
        let before = stream nb !prev and after = stream nb fs in
        (match o with
         | `W (id, sz) ->
           if hd <> Printf.sprintf "n=%d,e=0" sz then add "kind=write-result";
           if sz > 0 then begin
             history := !history @ [(id, sz)];
             (match List.rev (lookup fs 0) with (i, n) :: _ when i = id && n = sz -> () | _ -> add "kind=write-not-whole-in-current-file")
           end;
           if not (is_suffix after !history) then add "kind=stream-not-a-suffix-of-what-was-written";
           let body = if sz > 0 then [(id, sz)] else [] in
           let cur = size (lookup !prev 0) in
           let need_rotation = cur > 0 && cur + sz > !max_size in
           let oldest = lookup !prev nb in
           if after = before @ body then (if need_rotation && oldest <> [] then add "kind=size-limit-ignored")
           else if need_rotation && after = drop (List.length oldest) before @ body then incr rotations
           else add "kind=bytes-lost-duplicated-or-reordered";
           if need_rotation && lookup fs 0 <> body then add "kind=size-limit-ignored";
           if (not need_rotation) && List.sort compare fs <> List.sort compare ((0, lookup !prev 0 @ body) :: List.remove_assoc 0 !prev)
           then add "kind=rotation-without-need-or-file-changed"
         | `C | `S ->
           if hd <> "n=0,e=0" then add "kind=close-or-sync-result";
           if List.sort compare fs <> List.sort compare !prev then add "kind=close-or-sync-changed-files");
        List.iter (fun (k, r) ->
          if k > nb && not (List.mem_assoc k pre) then add "kind=too-many-backups";
          if k <= nb && size r > !max_size && List.length r > 1 then add "kind=file-exceeds-max-size") fs;
        prev := fs) ops steps
    end;
    if obs = "HANG" then add "kind=hang";
    if obs = "P" then add "kind=panic";
    let cls = (if pre <> [] then "pre+" else "") ^ (if !rotations > nb + 1 then "wrapped" else if !rotations > 0 then "rotated" else "norot")
              ^ (if List.exists (function `W (_, sz) -> sz > !max_size | _ -> false) ops then "+oversized" else "") in
    (model, (if !errs = [] then "ok" else "FAIL " ^ String.concat "," (List.rev !errs)), cls)

let () = drive run
