(* C04 driver. K: byte-level model of String/Comma/FromString. S: canonical form, exact value, parse-back identity, literal
   truncation, no panic, CheckedAs-to-float = "the nearest float prints as the number's own text". *)
let bytes_of_string (s : string) : z list = List.init (String.length s) (fun i -> z_of_int (Char.code s.[i]))
let string_of_bytes (l : z list) : string = String.init (List.length l) (fun i -> Char.chr (int_of_z (List.nth l i)))
let unhex h = if h = "-" then "" else String.init (String.length h / 2) (fun i -> Char.chr (int_of_string ("0x" ^ String.sub h (2 * i) 2)))
let p63 = BZ.shift_left BZ.one 63 and p127 = BZ.shift_left BZ.one 127
let e s = if s = "" then "<empty>" else s
let is_digit c = c >= '0' && c <= '9'
(* exact value of a plain decimal text as a rational; None if not of the form -?d+(.d+)? *)
let exact_of_text (s : string) : BQ.t option =
  try
    let neg = String.length s > 0 && s.[0] = '-' in
    let body = if neg then String.sub s 1 (String.length s - 1) else s in
    let (ip, fp) = (match String.index_opt body '.' with Some i -> (String.sub body 0 i, String.sub body (i + 1) (String.length body - i - 1)) | None -> (body, "")) in
    if ip = "" || not (String.for_all is_digit ip) || not (String.for_all is_digit fp) then None else begin
      let v = BQ.make (BZ.of_string (ip ^ fp)) (BZ.pow (BZ.of_int 10) (String.length fp)) in Some (if neg then BQ.neg v else v) end
  with _ -> None
let canonical (s : string) : bool =     (* optional minus, integer part without leading zeros, optional fraction without trailing zeros *)
  let n = String.length s in
  let i = ref 0 in
  if !i < n && s.[!i] = '-' then incr i;
  let st = !i in
  while !i < n && is_digit s.[!i] do incr i done;
  let ilen = !i - st in
  ilen >= 1 && (ilen = 1 || s.[st] <> '0') &&
  (if !i = n then true else s.[!i] = '.' && !i + 1 < n && String.for_all is_digit (String.sub s (!i + 1) (n - !i - 1)) && s.[n - 1] <> '0')
let strip_commas s = String.concat "" (String.split_on_char ',' s)
let groups_ok (s : string) : bool =       (* groups of three from the right in the integer part only *)
  let body = if String.length s > 0 && (s.[0] = '-' || s.[0] = '+') then String.sub s 1 (String.length s - 1) else s in
  let ip = (match String.index_opt body '.' with Some i -> String.sub body 0 i | None -> body) in
  let fp = (match String.index_opt body '.' with Some i -> String.sub body i (String.length body - i) | None -> "") in
  let gs = String.split_on_char ',' ip in
  not (String.contains fp ',') &&
  (match gs with
   | [] -> false
   | g0 :: rest -> String.length g0 >= 1 && String.length g0 <= 3 && List.for_all (fun g -> String.length g = 3) rest)

let run (c : string) (obs : string) : string * string * string =
  match words c with
  | [kind; ty; ds; arg] ->
    let d = int_of_string ds in
    let wide = (ty = "f128") in
    let places = nat_of_int d in
    let m = BZ.pow (BZ.of_int 10) d in
    let impl = List.filter_map (fun w -> match String.index_opt w '=' with
      | Some i -> Some (String.sub w 0 i, String.sub w (i + 1) (String.length w - i - 1)) | None -> None) (words obs) in
    let iget k = try List.assoc k impl with Not_found -> "?" in
    let fits v = if wide then BZ.geq v (BZ.neg p127) && BZ.lt v p127 else BZ.geq v (BZ.neg p63) && BZ.lt v p63 in
    let render_raw (v : z) = if wide then string_of_bytes (fx_string places v) else string_of_z v in
    let mparse (s : string) : string option =
      (match fx_from_string places wide (bytes_of_string s) with POk v -> Some (render_raw v) | PErr -> Some "ERR" | PUnmodelled -> None) in
    let errs = ref [] in
    let add k = if not (List.mem k !errs) then errs := k :: !errs in
    if List.exists (fun (_, v) -> v = "PANIC") impl then add "kind=panic";
    (match kind with
     | "str" ->
       let raw = BZ.of_string arg in
       let zr = z_of_bz raw in
       let s = string_of_bytes (fx_string places zr) in
       let ss = string_of_bytes (fx_string_with_sign places zr) in
       let cm = string_of_bytes (comma_from_string_num (fx_string places zr)) in
       let cs = (if BZ.sign raw >= 0 then "+" else "") ^ cm in
       let back t = (match mparse t with Some x -> x | None -> "?") in
       let self = render_raw zr in
       let model = [ "S", s; "SS", ss; "C", cm; "CS", cs; "rt", back s; "rtSS", back ss; "rtC", back cm; "rtCS", back cs;
                     "text", back (string_of_bytes (unquote (bytes_of_string ("\"" ^ s ^ "\"")))); "json", back s; "yaml", back s ] in
       (* S *)
       let is = iget "S" in
       if not (canonical is) then add "kind=string-not-canonical";
       (match exact_of_text is with
        | Some q -> if not (BQ.equal q (BQ.make raw m)) then add "kind=string-wrong-value"
        | None -> add "kind=string-not-canonical");
       if (String.length is > 0 && is.[0] = '-') <> (BZ.sign raw < 0) then add "kind=string-sign";
       if iget "SS" <> (if BZ.sign raw >= 0 then "+" ^ is else is) then add "kind=with-sign";
       if strip_commas (iget "C") <> is || not (groups_ok (iget "C")) then add "kind=comma";
       if iget "CS" <> (if BZ.sign raw >= 0 then "+" ^ iget "C" else iget "C") then add "kind=with-sign";
       List.iter (fun k -> if iget k <> self then add ("kind=roundtrip-" ^ k)) ["rt"; "rtSS"; "rtC"; "rtCS"; "text"; "json"; "yaml"];
       let verdict = if !errs = [] then "ok" else "FAIL " ^ String.concat "," (List.rev !errs) in
       (String.concat " " (List.map (fun (k, v) -> k ^ "=" ^ e v) model), verdict,
        "str-" ^ ty ^ (if BZ.sign (BZ.rem raw m) = 0 then "-whole" else if BZ.sign (BZ.div raw m) = 0 then "-zero-int-part" else "-mixed"))
     | "parse" ->
       let s = unhex arg in
       let got = iget "P" in
       let model = (match mparse s with Some x -> x | None -> got) in
       (* UnmarshalText / UnmarshalJSON = FromString after Unquote *)
       let uq = string_of_bytes (unquote (bytes_of_string s)) in
       let model_t = (match mparse uq with Some x -> x | None -> iget "T") in
       let model_j = (match mparse uq with Some x -> x | None -> iget "J") in
       (* S: plain decimal literals: optional sign, optional integer digits, optional dot and fraction digits, at least one digit *)
       let n = String.length s in
       let i = ref 0 in
       let sign = if n > 0 && (s.[0] = '-' || s.[0] = '+') then (incr i; String.make 1 s.[0]) else "" in
       let st = !i in
       while !i < n && is_digit s.[!i] do incr i done;
       let ip = String.sub s st (!i - st) in
       let fp = if !i < n && s.[!i] = '.' then (let j = !i + 1 in i := j; while !i < n && is_digit s.[!i] do incr i done; Some (String.sub s j (!i - j))) else None in
       let is_literal = (!i = n) && (ip <> "" || (match fp with Some f -> f <> "" | None -> false)) in
       let cls =
         if is_literal then begin
           let fpd = (match fp with Some f -> f | None -> "") in
           let fd = if String.length fpd > d then String.sub fpd 0 d else fpd ^ String.make (d - String.length fpd) '0' in
           let mag = BZ.of_string ((if ip = "" then "0" else ip) ^ fd) in        (* truncation toward zero to D places *)
           let want = if sign = "-" then BZ.neg mag else mag in
           let want_text = render_raw (z_of_bz want) in
           if fits want && (wide || fits (BZ.mul (BZ.of_string (if ip = "" then "0" else ip)) m)) then begin
             if got <> "ERR" && got <> want_text then add "kind=literal-wrong-number";
             if got = "ERR" && sign <> "+" then add "kind=literal-rejected"
           end;
           "parse-literal"
         end else "parse-junk" in
       let verdict = if !errs = [] then "ok" else "FAIL " ^ String.concat "," (List.rev !errs) in
       ("P=" ^ e model ^ " T=" ^ e model_t ^ " J=" ^ e model_j, verdict, cls ^ "-" ^ ty)
     | "chk" ->
       let raw = BZ.of_string arg in
       let s = string_of_bytes (fx_string places (z_of_bz raw)) in
       let model = "S=" ^ s ^ " " ^ String.concat " " (List.filter_map (fun (k, v) -> if k = "S" then None else Some (k ^ "=" ^ v)) impl) in
       let split2 x = (match String.index_opt x ':' with Some i -> (String.sub x 0 i, String.sub x (i + 1) (String.length x - i - 1)) | None -> (x, "")) in
       let (t64, b64) = split2 (iget "near64") and (t32, b32) = split2 (iget "near32") in
       let is = iget "S" in
       (* CheckedAs succeeds exactly when the nearest float's shortest round-trip decimal text is the number's own text *)
       if (iget "chk64" <> "ERR") <> (t64 = is) then add "kind=checked-as-float64";
       if iget "chk64" <> "ERR" && iget "chk64" <> b64 then add "kind=checked-as-float64-value";
       if (iget "chk32" <> "ERR") <> (t32 = is) then add "kind=checked-as-float32";
       if iget "chk32" <> "ERR" && iget "chk32" <> b32 then add "kind=checked-as-float32-value";
       if iget "chk64" <> "ERR" && iget "as64" <> iget "chk64" then add "kind=as-differs-from-checked-as";
       let verdict = if !errs = [] then "ok" else "FAIL " ^ String.concat "," (List.rev !errs) in
       (model, verdict, "chk-" ^ ty ^ (if iget "chk64" = "ERR" then "-inexact" else "-exact"))
     | _ -> ("BADCASE", "ok", "bad"))
  | _ -> ("BADCASE", "ok", "bad")

let () = drive run
