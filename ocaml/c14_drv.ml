(* C14 driver. K: the model's system-call list on the temporary file (as strace saw it), the values returned, and the final
   destination, mode and number of leftover files. S: the statement on the implementation's own observations - success: the
   destination is exactly the new bytes with mode = requested & ~umask, no temporary file; failure or Close without Commit:
   destination untouched, error returned, no temporary file; killed at any instant: the destination is the old file or the
   complete new one; the temporary file is created exclusively and nothing ever truncates or writes the destination in place. *)
let ints s = if s = "" || s = "-" then [] else List.map int_of_string (String.split_on_char ',' s)
let show_call = function SOpenTemp -> "O" | SWrite n -> "W" ^ string_of_z n | SClose -> "C" | SRename true -> "R1" | SRename false -> "" | SUnlink -> "U"
(* a failing rename changes nothing and may be refused by os.Rename before reaching the kernel: it is not part of the compared trace *)
let show_calls l = String.concat "," (List.filter (fun x -> x <> "") (List.map show_call l))
let umask = 0o022
let mask_fn m u = z_of_int ((int_of_z m) land (lnot (int_of_z u)))
let field ws k = let pre = k ^ "=" in let n = String.length pre in
  let rec go = function [] -> "" | w :: r -> if String.length w >= n && String.sub w 0 n = pre then String.sub w n (String.length w - n) else go r in go ws

let run (c : string) (obs : string) : string * string * string =
  let errs = ref [] in
  let add k = if not (List.mem k !errs) then errs := k :: !errs in
  let ws = words obs in
  let dest = field ws "dest" and mode = field ws "mode" and temps = field ws "temps" and trace = field ws "trace" and ret = field ws "ret" in
  let verdict () = if !errs = [] then "ok" else "FAIL " ^ String.concat "," (List.rev !errs) in
  let old_dest old = match old with "1" -> "old" | "dir" -> "dir" | _ -> "none" in
  let old_mode old = match old with "1" -> "640" | _ -> "0" in
  if String.contains trace '?' then add "kind=unexpected-call-on-destination-or-non-exclusive-temp";
  if obs = "HANG" then add "kind=hang";
  let cw = List.filter (fun w -> w <> "rel" && w <> "dot") (words c) in
  match cw with
  | ["wf"; old; m; fail; sz] ->
    let sizes = ints sz in
    let total = List.fold_left (+) 0 sizes in
    let rename_ok = old <> "dir" in
    let fail_after = if fail = "-" then None else Some (nat_of_int (int_of_string fail)) in
    let (calls, err) = m_write_file (List.map z_of_int sizes) fail_after rename_ok in
    let ok = not err in
    let newmode = Printf.sprintf "%o" ((int_of_string ("0o" ^ m)) land (lnot umask)) in
    let model = Printf.sprintf "ret=%s dest=%s mode=%s temps=0 trace=%s" (if err then "1" else "0")
      (if ok then Printf.sprintf "new:%d" total else old_dest old) (if ok then newmode else old_mode old) (show_calls calls) in
    (* S *)
    if ok then begin
      if ret <> "0" then add "kind=error-on-success-path";
      if dest <> Printf.sprintf "new:%d" total then add "kind=destination-is-not-the-bytes-written";
      if mode <> newmode then add "kind=wrong-mode"
    end else begin
      if ret <> "1" then add "kind=failure-not-reported";
      if dest <> old_dest old || (old = "1" && mode <> "640") then add "kind=destination-touched-on-failure"
    end;
    if temps <> "0" then add "kind=temporary-file-left-behind";
    (model, verdict (), (if ok then "wf-ok" else if fail <> "-" then "wf-writer-fails" else "wf-commit-fails") ^ (if total > 65536 then "+multi-chunk" else ""))
  | ["wfx"; old; m; lim; sz] ->
    (* a file-size limit on the child and a writer that ignores the errors of its Write calls *)
    let sizes = ints sz in
    let total = List.fold_left (+) 0 sizes in
    let (calls, err) = m_write_file_limited (List.map z_of_int sizes) (z_of_int (int_of_string lim)) in
    let ok = not err in
    let newmode = Printf.sprintf "%o" ((int_of_string ("0o" ^ m)) land (lnot umask)) in
    let model = Printf.sprintf "ret=%s dest=%s mode=%s temps=0 trace=%s" (if err then "1" else "0")
      (if ok then Printf.sprintf "new:%d" total else old_dest old) (if ok then newmode else old_mode old) (show_calls calls) in
    if (total > int_of_string lim) <> err then add "kind=model-error-flag";
    if total <= int_of_string lim then begin
      if ret <> "0" then add "kind=error-on-success-path";
      if dest <> Printf.sprintf "new:%d" total then add "kind=destination-is-not-the-bytes-written";
      if mode <> newmode then add "kind=wrong-mode"
    end else begin
      if ret <> "1" then add "kind=write-fault-not-reported";
      if dest <> old_dest old || (old = "1" && mode <> "640") then add "kind=destination-touched-on-failure"
    end;
    if temps <> "0" then add "kind=temporary-file-left-behind";
    (model, verdict (), if ok then "wfx-fits" else "wfx-write-fault")
  | ["file"; old; m; ops] ->
    let rename_ok = old <> "dir" in
    let fops = List.map (fun o -> if o = "commit" then FCommit else if o = "close" then FClose else FWrite (z_of_int (int_of_string (String.sub o 1 (String.length o - 1))))) (String.split_on_char ',' ops) in
    let (calls, rs) = m_file_session rename_ok fops in
    let final = m_run (z_of_int (int_of_string ("0o" ^ m))) (z_of_int umask) mask_fn (m_fs (match old with "1" -> Some (Old, z_of_int 0o640) | _ -> None)) calls in
    let mdest, mmode = (match final.dest with
      | Some (New k, md) -> (Printf.sprintf "new:%s" (string_of_z k), Printf.sprintf "%o" (int_of_z md))
      | Some (Old, _) -> ("old", "640") | None -> (old_dest old, "0")) in
    let mtemps = (match final.temp with Some _ -> "1" | None -> "0") in
    let model = Printf.sprintf "ret=%s dest=%s mode=%s temps=%s trace=%s" (String.concat "" (List.map (function ROk -> "0" | RInvalid -> "I" | RFailed -> "1") rs))
      mdest mmode mtemps (show_calls calls) in
    (* S: committed successfully <-> a "commit" answered 0 before any close; then dest = bytes written before it *)
    let written = ref 0 and committed = ref false and closed = ref false and published = ref (-1) in
    List.iter (fun o -> match o with
      | FWrite n -> if not !closed then written := !written + int_of_z n
      | FCommit -> if not !committed && not !closed then begin committed := true; closed := true; if rename_ok then published := !written end
      | FClose -> if not !committed && not !closed then closed := true) fops;
    if !published >= 0 then begin
      if dest <> Printf.sprintf "new:%d" !published then add "kind=destination-is-not-the-bytes-written"
    end else if dest <> old_dest old || (old = "1" && mode <> "640") then add "kind=destination-touched-without-commit";
    if !closed && temps <> "0" then add "kind=temporary-file-left-behind";
    (model, verdict (), "file" ^ (if !published >= 0 then "-committed" else if !closed then "-discarded" else "-left-open"))
  | ["kill"; _; _; old; m; sz] ->
    let total = List.fold_left (+) 0 (ints sz) in
    let newmode = Printf.sprintf "%o" ((int_of_string ("0o" ^ m)) land (lnot umask)) in
    let fine = (dest = old_dest old && (old <> "1" || mode = "640")) || (dest = Printf.sprintf "new:%d" total && mode = newmode) in
    if not fine then add "kind=destination-neither-old-nor-complete-new-after-kill";
    if ret <> "ret=killed" && ret <> "killed" && temps <> "0" then add "kind=temporary-file-left-behind";
    ((if fine then obs else "dest in {old, complete new}"), verdict (), if ret = "killed" then "killed" else "kill-missed")
  | _ -> ("BADCASE", "ok", "bad")

let () = drive run
