(* C03 driver. K: model of f64 (int64 wrap) and f128 (over the Int128 model) for every method. S: exact integer/rational
   arithmetic on big integers, applied to the implementation's answers wherever the exact result is representable. *)
let p63 = BZ.shift_left BZ.one 63 and p64 = BZ.shift_left BZ.one 64 and p127 = BZ.shift_left BZ.one 127 and p128 = BZ.shift_left BZ.one 128
let fits64 v = BZ.geq v (BZ.neg p63) && BZ.lt v p63
let fits128 v = BZ.geq v (BZ.neg p127) && BZ.lt v p127
let kinds = [("i8", 8, true); ("i16", 16, true); ("i32", 32, true); ("i64", 64, true); ("int", 64, true);
             ("u8", 8, false); ("u16", 16, false); ("u32", 32, false); ("u64", 64, false); ("uint", 64, false)]
let kfits w signed v = if signed then BZ.geq v (BZ.neg (BZ.shift_left BZ.one (w - 1))) && BZ.lt v (BZ.shift_left BZ.one (w - 1))
                       else BZ.sign v >= 0 && BZ.lt v (BZ.shift_left BZ.one w)
let kwrapz w signed v = let m = BZ.shift_left BZ.one w in let y = BZ.erem v m in
  if signed && BZ.geq y (BZ.shift_left BZ.one (w - 1)) then BZ.sub y m else y
let w128_of (v : BZ.t) : w128 = let u = BZ.erem v p128 in { hi = z_of_bz (BZ.shift_right u 64); lo = z_of_bz (BZ.logand u (BZ.pred p64)) }
let bz_of_w128 (x : w128) : BZ.t = let u = BZ.add (BZ.mul (bz_of_z x.hi) p64) (bz_of_z x.lo) in if BZ.geq u p127 then BZ.sub u p128 else u
(* canonical decimal text of raw/10^d, as String() prints it *)
let raw_text (v : BZ.t) (d : int) : string =
  let m = BZ.pow (BZ.of_int 10) d in
  let ip = BZ.div v m and fp = BZ.abs (BZ.rem v m) in       (* zarith div/rem truncate *)
  if BZ.sign fp = 0 then BZ.to_string ip else begin
    let fs = BZ.to_string fp in
    let fs = String.make (d - String.length fs) '0' ^ fs in
    let n = ref (String.length fs) in
    while !n > 0 && fs.[!n - 1] = '0' do decr n done;
    (if BZ.sign ip = 0 && BZ.sign v < 0 then "-" else "") ^ BZ.to_string ip ^ "." ^ String.sub fs 0 !n
  end
(* raw value of a canonical (or any plain) decimal text, exact if it has at most d fraction digits *)
let text_raw (s : string) (d : int) : BZ.t option =
  try
    let neg = String.length s > 0 && s.[0] = '-' in
    let s' = if neg then String.sub s 1 (String.length s - 1) else s in
    let (ip, fp) = (match String.index_opt s' '.' with Some i -> (String.sub s' 0 i, String.sub s' (i + 1) (String.length s' - i - 1)) | None -> (s', "")) in
    if String.length fp > d then None else begin
      let fp = fp ^ String.make (d - String.length fp) '0' in
      let v = BZ.of_string ((if ip = "" then "0" else ip) ^ fp) in Some (if neg then BZ.neg v else v) end
  with _ -> None
let b2s b = if b then "1" else "0"
let half_away (a : BZ.t) (m : BZ.t) : BZ.t =      (* M * round-half-away-from-zero(a/M) *)
  let q = BZ.div (BZ.add (BZ.mul (BZ.of_int 2) (BZ.abs a)) m) (BZ.mul (BZ.of_int 2) m) in BZ.mul m (if BZ.sign a < 0 then BZ.neg q else q)

let run (c : string) (obs : string) : string * string * string =
  match words c with
  | [ty; ds; sa; sb] ->
    let d = int_of_string ds in
    let m = BZ.pow (BZ.of_int 10) d in
    let a = BZ.of_string sa and b = BZ.of_string sb in
    let mz = f_multiplier (z_of_int d) in
    let impl = List.filter_map (fun w -> match String.index_opt w '=' with
      | Some i -> Some (String.sub w 0 i, String.sub w (i + 1) (String.length w - i - 1)) | None -> None) (words obs) in
    let iget k = try List.assoc k impl with Not_found -> "?" in
    let is64 = (ty = "f64") in
    let fits = if is64 then fits64 else fits128 in
    (* ---------- exact specification: Some text when the exact result is representable *)
    let rnd v = if is64 then BZ.to_string v else raw_text v d in
    let ex v = if fits v then Some (rnd v) else None in
    let trunc_a = BZ.mul m (BZ.div a m) in
    let ceil_a = if BZ.sign a > 0 && not (BZ.equal a trunc_a) then BZ.add trunc_a m else trunc_a in
    let spec = ref [
      "Add", ex (BZ.add a b); "Sub", ex (BZ.sub a b);
      "Mul", (if fits (BZ.mul a b) then ex (BZ.div (BZ.mul a b) m) else None);
      "Div", (if BZ.sign b = 0 then Some "PANIC" else if fits (BZ.mul a m) then ex (BZ.div (BZ.mul a m) b) else None);
      "Mod", (if BZ.sign b = 0 then Some "PANIC" else
              let q = BZ.div a b in
              if fits (BZ.mul a m) && fits (BZ.div (BZ.mul a m) b) && fits (BZ.mul (BZ.mul b m) q) then ex (BZ.sub a (BZ.mul b q)) else None);
      "Abs", (if fits (BZ.abs a) then ex (BZ.abs a) else None);
      "Trunc", ex trunc_a; "Ceil", ex ceil_a; "Round", ex (half_away a m);
      "Min", ex (BZ.min a b); "Max", ex (BZ.max a b); "Inc", ex (BZ.add a m); "Dec", ex (BZ.sub a m) ] in
    if not is64 then spec := !spec @ [ "Neg", ex (BZ.neg a); "Cmp", Some (string_of_int (BZ.compare a b));
      "Rel", Some (b2s (BZ.gt a b) ^ b2s (BZ.geq a b) ^ b2s (BZ.equal a b) ^ b2s (BZ.lt a b) ^ b2s (BZ.leq a b)) ];
    if is64 then spec := !spec @ [ "Mult", Some (BZ.to_string m) ];
    (* Fraction{Numerator a, Denominator b}: Normalize gives 0/1 for b = 0, (-a)/(-b) for b < 0; Value = a/b truncated toward zero *)
    spec := !spec @ [
      "FrN", (if BZ.sign b = 0 then ex BZ.zero else if BZ.sign b < 0 then (if fits (BZ.mul a m) && fits (BZ.mul b m) then ex (BZ.neg a) else None) else ex a);
      "FrD", (if BZ.sign b = 0 then ex m else if BZ.sign b < 0 then (if fits (BZ.mul a m) && fits (BZ.mul b m) then ex (BZ.neg b) else None) else ex b);
      "FrV", (if BZ.sign b = 0 then ex BZ.zero
              else if fits (BZ.mul a m) && fits (BZ.mul b m) && fits (BZ.neg a) && fits (BZ.neg b) then ex (BZ.div (BZ.mul a m) b) else None) ];
    (* integer From / As / CheckedAs *)
    let a64 = if is64 then a else (let u = BZ.erem a p64 in if BZ.geq u p63 then BZ.sub u p64 else u) in
    List.iter (fun (k, w, signed) ->
      let v = kwrapz w signed a64 in                       (* the Go value handed to From *)
      spec := !spec @ [ "From_" ^ k, (if fits (BZ.mul v m) && (is64 || true) then (if is64 && not (fits64 v) then None else ex (BZ.mul v m)) else None) ];
      let q = BZ.div a m in
      spec := !spec @ [ "As_" ^ k, (if kfits w signed q then Some (BZ.to_string q) else None);
                         "Chk_" ^ k, Some (if BZ.sign (BZ.rem a m) = 0 && kfits w signed q then BZ.to_string q else "ERR") ]) kinds;
    let bad = List.filter_map (fun (k, want) -> match want with
      | None -> None
      | Some w -> if iget k = w then None else Some ("kind=" ^ k)) !spec in
    (* floats: tolerance checks on exact rationals *)
    let fl = ref [] in
    (* the float operand exactly as the harness built it (float64(a)/1024; float64(a) rounds beyond 2^53) *)
    let xq = (match iget "Fv" with
              | "?" -> BQ.make a64 (BZ.of_int 1024)
              | h -> (try BQ.of_float (Int64.float_of_bits (Int64.of_string ("0x" ^ h))) with _ -> BQ.make a64 (BZ.of_int 1024))) in
    let chk_from name rel =
      (match iget name with
       | "?" -> ()
       | s -> (match (if is64 then (try Some (BZ.of_string s) with _ -> None) else text_raw s d) with
               | None -> fl := ("kind=" ^ name) :: !fl
               | Some raw ->
                 let exact = BQ.mul xq (BQ.of_bigint m) in
                 if BQ.lt (BQ.abs exact) (BQ.of_bigint (if is64 then BZ.shift_left BZ.one 62 else BZ.shift_left BZ.one 120)) then begin
                   let tol = BQ.max BQ.one (BQ.mul (BQ.abs exact) rel) in
                   if BQ.gt (BQ.abs (BQ.sub (BQ.of_bigint raw) exact)) tol then fl := ("kind=" ^ name) :: !fl end)) in
    chk_from "FromF64" (BQ.of_string "1/4503599627370496");
    if is64 then chk_from "FromF32" (BQ.of_string "1/4194304");
    let chk_as name bits rel =
      (match iget name with
       | "?" -> ()
       | s -> (try
           let u = Int64.of_string ("0x" ^ s) in
           let f = if bits = 64 then Int64.float_of_bits u else Int32.float_of_bits (Int64.to_int32 u) in
           let exact = BQ.make a m in
           let got = BQ.of_float f in
           let tol = BQ.max (BQ.make BZ.one m) (BQ.mul (BQ.abs exact) rel) in
           if BQ.gt (BQ.abs (BQ.sub got exact)) tol then fl := ("kind=" ^ name) :: !fl;
           if BQ.sign got * BQ.sign exact < 0 then fl := ("kind=" ^ name) :: !fl
         with _ -> fl := ("kind=" ^ name) :: !fl)) in
    chk_as "AsF64" 64 (BQ.of_string "1/4503599627370496");
    if is64 then chk_as "AsF32" 32 (BQ.of_string "1/4194304");
    let verdict = if bad = [] && !fl = [] then "ok" else "FAIL " ^ String.concat "," (bad @ List.rev !fl) in
    (* ---------- model *)
    let model =
      if is64 then begin
        let za = z_of_bz a and zb = z_of_bz b in
        let s v = string_of_z v in
        let dz name f = (name, if BZ.sign b = 0 then "PANIC" else s (f ())) in
        [ "Add", s (f_add za zb); "Sub", s (f_sub za zb); "Mul", s (f_mul mz za zb); dz "Div" (fun () -> f_div mz za zb); dz "Mod" (fun () -> f_mod_ mz za zb);
          "Abs", s (f_abs za); "Trunc", s (f_trunc mz za); "Ceil", s (f_ceil mz za); "Round", s (f_round mz za); "Min", s (f_min_ za zb); "Max", s (f_max_ za zb);
          "Inc", s (f_inc mz za); "Dec", s (f_dec mz za); "Mult", s mz ]
        @ List.concat_map (fun (k, w, signed) ->
            let v = f_kwrap (z_of_int w) signed za in
            [ "From_" ^ k, s (f_from_int mz v); "As_" ^ k, s (f_as_int mz (z_of_int w) signed za);
              "Chk_" ^ k, (match f_checked_as_int mz (z_of_int w) signed za with Some n -> s n | None -> "ERR") ]) kinds
        @ [ "Fv", iget "Fv"; "FromF64", iget "FromF64"; "FromF32", iget "FromF32"; "AsF64", iget "AsF64"; "AsF32", iget "AsF32" ]
        @ (let (fn, fd) = f_frac_norm mz za zb in [ "FrN", s fn; "FrD", s fd; "FrV", (match f_frac_value mz za zb with Some v -> s v | None -> "PANIC") ])
      end else begin
        let wa = w128_of a and wb = w128_of b in
        let t x = raw_text (bz_of_w128 x) d in
        let tr = function Ok x -> t x | DivZero -> "PANIC" | OutOfFuel -> "MODEL-OUT-OF-FUEL" in
        let za64 = z_of_bz a64 in
        [ "Add", t (f_add128 wa wb); "Sub", t (f_sub128 wa wb); "Mul", t (f_mul128 mz wa wb); "Div", tr (f_div128 mz wa wb); "Mod", tr (f_mod128 mz wa wb);
          "Abs", t (m_Abs wa); "Neg", t (m_Neg wa); "Trunc", t (f_trunc128 mz wa); "Ceil", t (f_ceil128 mz wa); "Round", t (f_round128 mz wa);
          "Min", t (f_min128 wa wb); "Max", t (f_max128 wa wb); "Inc", t (f_inc128 mz wa); "Dec", t (f_dec128 mz wa);
          "Cmp", string_of_z (m_ICmp wa wb); "Rel", b2s (m_IGT wa wb) ^ b2s (m_IGE wa wb) ^ b2s (m_EQ wa wb) ^ b2s (m_ILT wa wb) ^ b2s (m_ILE wa wb) ]
        @ List.concat_map (fun (k, w, signed) ->
            let v = f_kwrap (z_of_int w) signed za64 in
            let unsigned64 = (not signed) && w = 64 in
            let fr = f_from_int128 mz unsigned64 v in
            let asv = f_as_int128 mz (z_of_int w) signed wa in
            (* CheckedAs: n := TO(AsInt64(data/mult)); ok iff From(n) = f and the sign agrees *)
            let back = f_from_int128 mz unsigned64 asv in
            let chk = if m_EQ back wa && (BZ.sign (bz_of_z asv) < 0) = (BZ.sign a < 0) then string_of_z asv else "ERR" in
            [ "From_" ^ k, t fr; "As_" ^ k, string_of_z asv; "Chk_" ^ k, chk ]) kinds
        @ [ "Fv", iget "Fv"; "FromF64", iget "FromF64"; "AsF64", iget "AsF64" ]
        @ (let (fn, fd) = f_frac_norm128 mz wa wb in [ "FrN", t fn; "FrD", t fd; "FrV", tr (f_frac_value128 mz wa wb) ])
      end in
    let mtext = String.concat " " (List.map (fun (k, v) -> k ^ "=" ^ v) model) in
    let cls = ty ^ (if fits (BZ.mul a b) && fits (BZ.mul a m) then "+fits" else "+overflow") in
    (mtext, verdict, cls)
  | _ -> ("BADCASE", "ok", "bad")

let () = drive run
