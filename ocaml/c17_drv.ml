(* C17 driver. K: the three-map model's call sets, panic counts and batch levels after every op (call order is accepted when it
   is non-increasing in the model's priorities). S: a plain set of registrations (target, name) -> priority per notifier. *)
let natl (s : string) = List.init (String.length s) (fun i -> nat_of_int (Char.code s.[i]))
let str_of_natl l = String.init (List.length l) (fun i -> Char.chr (int_of_nat (List.nth l i)))
let unhex h = if h = "-" then "" else String.init (String.length h / 2) (fun i -> Char.chr (int_of_string ("0x" ^ String.sub h (2 * i) 2)))
let hex s = if s = "" then "-" else String.concat "" (List.init (String.length s) (fun i -> Printf.sprintf "%02x" (Char.code s.[i])))
let segs s = List.filter (fun x -> x <> "") (String.split_on_char '.' s)
let norm s = String.concat "." (segs s)
let rec prefixes acc = function [] -> [] | x :: r -> let a = acc @ [x] in String.concat "." a :: prefixes a r
let is_batch t = t >= 3
let panics t = t = 2 || t = 5

type spec = { mutable regs : ((int * string) * int) list; mutable batch : int list; mutable cur : int list; mutable lvl : int; mutable en : bool }

let run (c : string) (obs : string) : string * string * string =
  if String.length c > 7 && String.sub c 0 7 = "stress " then
    ("stress-done", (if obs = "stress-done" then "ok" else "FAIL kind=concurrent-stress"), "stress")
  else begin
  let ops = List.filter (fun o -> words o <> []) (String.split_on_char ';' c) in
  let st = ref (m_new, m_new) in
  let sp = [| { regs = []; batch = []; cur = []; lvl = 0; en = true }; { regs = []; batch = []; cur = []; lvl = 0; en = true } |] in
  let errs = ref [] in
  let add k = if not (List.mem k !errs) then errs := k :: !errs in
  let impl = Array.of_list (split_on " / " obs) in
  let nnotify = ref 0 and nhit = ref 0 in
  let outs = List.mapi (fun k o ->
    let f = words o in
    let w = int_of_string (List.nth f 1) in
    let mop =
      (match f with
       | ["reg"; _; t; pr; nms] -> OReg (nat_of_int w, nat_of_int (int_of_string t), z_of_int (int_of_string pr), List.map (fun h -> natl (unhex h)) (String.split_on_char ',' nms))
       | ["from"; _] -> OFrom (nat_of_int w) | ["unreg"; _; t] -> OUnreg (nat_of_int w, nat_of_int (int_of_string t))
       | ["enable"; _; b] -> OEnable (nat_of_int w, b = "1") | ["reset"; _] -> OReset (nat_of_int w)
       | ["notify"; _; h] -> ONotify (nat_of_int w, natl (unhex h)) | ["start"; _] -> OStart (nat_of_int w) | ["end"; _] -> OEnd (nat_of_int w)
       | _ -> failwith "op") in
    let (st', out) = step !st mop in
    st := st';
    (* the implementation's fields *)
    let fields = if k < Array.length impl then words impl.(k) else [] in
    let get p = (match List.find_opt (fun x -> String.length x >= String.length p && String.sub x 0 (String.length p) = p) fields with
                 | Some x -> String.sub x (String.length p) (String.length x - String.length p) | None -> "?") in
    let il s = if s = "." || s = "?" then [] else String.split_on_char ',' s in
    let impl_order = il (get "order=") in
    (* ---- S on the implementation's observation *)
    (if fields = [] then add "kind=observation-count" else if List.mem "PANIC" fields then add "kind=panic" else begin
      let s = sp.(w) in
      let expect_calls, ordered =
        (match f with
         | ["reg"; _; t; pr; nms] ->
           let t = int_of_string t and pr = int_of_string pr in
           let names = List.filter (fun x -> x <> "") (List.map (fun h -> norm (unhex h)) (String.split_on_char ',' nms)) in
           if names <> [] then begin
             List.iter (fun nm -> s.regs <- ((t, nm), pr) :: List.remove_assoc (t, nm) s.regs) names;
             if is_batch t && not (List.mem t s.batch) then s.batch <- t :: s.batch
           end; ([], [])
         | ["from"; _] ->
           let o = sp.(1 - w) in
           List.iter (fun (key, pr) -> s.regs <- (key, pr) :: List.remove_assoc key s.regs) o.regs;
           List.iter (fun t -> if not (List.mem t s.batch) then s.batch <- t :: s.batch) o.batch; ([], [])
         | ["unreg"; _; t] -> let t = int_of_string t in
           if List.exists (fun ((t', _), _) -> t' = t) s.regs then begin
             s.regs <- List.filter (fun ((t', _), _) -> t' <> t) s.regs; s.batch <- List.filter (fun x -> x <> t) s.batch end; ([], [])
         | ["enable"; _; b] -> s.en <- (b = "1"); ([], [])
         | ["reset"; _] -> s.regs <- []; s.batch <- []; s.cur <- []; s.lvl <- 0; ([], [])
         | ["notify"; _; h] ->
           incr nnotify;
           let name = norm (unhex h) in
           if s.en && name <> "" then begin
             let pres = prefixes [] (segs name) in           (* shortest first: the most specific match wins *)
             let tbl = Hashtbl.create 8 in
             List.iter (fun p -> List.iter (fun ((t, nm), pr) -> if nm = p then Hashtbl.replace tbl t pr) (List.rev s.regs)) pres;
             let l = Hashtbl.fold (fun t pr acc -> (t, pr) :: acc) tbl [] in
             if l <> [] then incr nhit;
             (List.map (fun (t, _) -> Printf.sprintf "%d:%s" t (hex name)) l, l)
           end else ([], [])
         | ["start"; _] ->
           if s.en then begin s.lvl <- s.lvl + 1;
             if s.lvl = 1 && s.batch <> [] then (s.cur <- s.batch; (List.map (fun t -> Printf.sprintf "%d:B1" t) s.batch, [])) else ([], []) end
           else ([], [])
         | ["end"; _] ->
           if s.en && s.lvl > 0 then begin s.lvl <- s.lvl - 1;
             if s.lvl = 0 then (let c = s.cur in s.cur <- []; (List.map (fun t -> Printf.sprintf "%d:B0" t) c, [])) else ([], []) end
           else ([], [])
         | _ -> ([], [])) in
      let want = List.sort compare expect_calls in
      if il (get "set=") <> want then add (match f with "notify" :: _ -> "kind=notify-targets" | ("start" | "end") :: _ -> "kind=batch-targets" | _ -> "kind=unexpected-call");
      (* priority order *)
      (if ordered <> [] && List.sort compare impl_order = want then begin
        let pr_of call = let t = int_of_string (List.hd (String.split_on_char ':' call)) in List.assoc t ordered in
        let rec nonincr = function a :: (b :: _ as r) -> pr_of a >= pr_of b && nonincr r | _ -> true in
        if not (nonincr impl_order) then add "kind=priority-order" end);
      let np = List.length (List.filter (fun call -> panics (int_of_string (List.hd (String.split_on_char ':' call)))) want) in
      if get "p=" <> string_of_int np then add "kind=panic-recovery";
      if get "lv=" <> Printf.sprintf "%d,%d" sp.(0).lvl sp.(1).lvl then add "kind=batch-level"
    end);
    (* ---- K *)
    let (a, b) = !st in
    let lv = Printf.sprintf "%d,%d" (int_of_nat (level a)) (int_of_nat (level b)) in
    let render calls prios =
      let sorted = List.sort compare calls in
      let order =
        if List.sort compare impl_order = sorted then begin
          let pr_of call = let t = int_of_string (List.hd (String.split_on_char ':' call)) in try List.assoc t prios with Not_found -> 0 in
          let rec nonincr = function x :: (y :: _ as r) -> pr_of x >= pr_of y && nonincr r | _ -> true in
          if prios = [] || nonincr impl_order then impl_order else ["BADORDER"] end
        else sorted in
      let j l = if l = [] then "." else String.concat "," l in
      let np = List.length (List.filter (fun call -> panics (int_of_string (List.hd (String.split_on_char ':' call)))) calls) in
      Printf.sprintf "set=%s order=%s p=%d lv=%s" (j sorted) (j order) np lv in
    (match out, f with
     | OTargets _, ["notify"; _; h] ->
       (* the model's delivery: targets sorted by non-increasing priority, panicking targets recovered (Model.deliver); the
          implementation's order is accepted when its priority sequence is the model's (ties may come in any order) *)
       let name = hex (str_of_natl (normalize (natl (unhex h)))) in
       let ev = deliver (fun t -> panics (int_of_nat t)) (if w = 0 then a else b) (natl (unhex h)) in
       let l' = List.map (fun (t, pr) -> (int_of_nat t, int_of_z pr)) (calls ev) in
       let mcalls = List.map (fun (t, _) -> Printf.sprintf "%d:%s" t name) l' in
       let sorted = List.sort compare mcalls in
       let pr_of call = let t = int_of_string (List.hd (String.split_on_char ':' call)) in try List.assoc t l' with Not_found -> min_int in
       let order = if List.sort compare impl_order = sorted && List.map pr_of impl_order = List.map snd l' then impl_order else mcalls in
       let j l = if l = [] then "." else String.concat "," l in
       Printf.sprintf "set=%s order=%s p=%d lv=%s" (j sorted) (j order) (List.length (recovered ev)) lv
     | OBatch l, ("start" :: _) -> render (List.map (fun t -> Printf.sprintf "%d:B1" (int_of_nat t)) l) []
     | OBatch l, ("end" :: _) -> render (List.map (fun t -> Printf.sprintf "%d:B0" (int_of_nat t)) l) []
     | _ -> render [] [])) ops in
  let verdict = if !errs = [] then "ok" else "FAIL " ^ String.concat "," (List.rev !errs) in
  (String.concat " / " outs, verdict, if !nhit = 0 then "no-delivery-trivial" else if List.exists (fun o -> match words o with "from" :: _ -> true | _ -> false) ops then "with-merge" else "plain")
  end

let () = drive run
