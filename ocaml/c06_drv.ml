(* C06 driver. K: model shape/colours/queries/compare counts after every op. S: sorted-list multimap spec, red-black checker
   and the comparison bound applied to the implementation's own observations. *)
let zi = z_of_int
let iz = int_of_z
let ints l = if l = [] then "." else String.concat "," (List.map string_of_int l)
let zs l = ints (List.map iz l)

let dump (t : tree) : string =
  let acc = ref [] in
  let rec go t depth side =
    match t with
    | E -> ()
    | T (b, l, k, _, r) ->
      acc := Printf.sprintf "%d%s%s%d" depth (if b then "b" else "r") side (iz k) :: !acc;
      go l (depth + 1) "L"; go r (depth + 1) "R" in
  go t 0 "-";
  if !acc = [] then "." else String.concat "," (List.rev !acc)

(* parse the implementation's dump back into a tree (values unknown: 0) *)
let parse_dump (s : string) : tree =
  if s = "." then E else begin
    let items = List.map (fun it ->
      let n = String.length it in
      let i = ref 0 in
      while !i < n && it.[!i] >= '0' && it.[!i] <= '9' do incr i done;
      let depth = int_of_string (String.sub it 0 !i) in
      let col = it.[!i] = 'b' in
      let side = it.[!i + 1] in
      let key = int_of_string (String.sub it (!i + 2) (n - !i - 2)) in
      (depth, col, side, key)) (String.split_on_char ',' s) in
    let rest = ref items in
    let rec build depth side =
      match !rest with
      | (d, c, sd, k) :: tl when d = depth && (sd = side || depth = 0) ->
        rest := tl;
        let l = build (depth + 1) 'L' in
        let r = build (depth + 1) 'R' in
        T (c, l, zi k, Z0, r)
      | _ -> E in
    let t = build 0 '-' in
    if !rest <> [] then failwith "dump"; t
  end

let log2 n = let rec go n acc = if n <= 1 then acc else go (n / 2) (acc + 1) in go n 0

let run (c : string) (obs : string) : string * string * string =
  match split_on "|" c with
  | [hdr; body] ->
    let probes = ref [] and stop = ref 0 in
    List.iter (fun f ->
      if String.length f > 5 && String.sub f 0 5 = "keys=" then
        probes := List.map int_of_string (String.split_on_char ',' (String.sub f 5 (String.length f - 5)));
      if String.length f > 5 && String.sub f 0 5 = "stop=" then stop := int_of_string (String.sub f 5 (String.length f - 5))) (words hdr);
    let ops = List.filter (fun o -> words o <> []) (String.split_on_char ';' body) in
    let vis_stop v = (iz v) mod 7 <> !stop in
    let vis_all _ = true in
    let vis_stop2 v = (iz v) mod 7 <> (!stop + 3) mod 7 in
    let t = ref (Some E) in
    let spec = ref [] in     (* (key, value) list in order *)
    let errs = ref [] in
    let add k = if not (List.mem k !errs) then errs := k :: !errs in
    let impl_obs = Array.of_list (split_on " / " obs) in
    let dead = ref false in
    let maxn = ref 0 and dups = ref false in
    let outs = List.mapi (fun serial o ->
      let before = (match !t with Some x -> x | None -> E) in
      let nbefore = List.length !spec in
      let (cm, isins, key) =
        (match words o with
         | ["ins"; k] -> let k = int_of_string k in
           t := (match !t with Some x -> Some (insert zcmp x (zi k) (zi serial)) | None -> None);
           (* spec: after the last entry <= k *)
           let rec ins l = match l with [] -> [(k, serial)] | (k', v') :: r -> if k < k' then (k, serial) :: l else (k', v') :: ins r in
           if List.exists (fun (k', _) -> k' = k) !spec then dups := true;
           spec := ins !spec;
           (int_of_nat (insert_cmps zcmp before (zi k)), true, k)
         | ["rem"; k] -> let k = int_of_string k in
           t := (match !t with Some x -> remove zcmp x (zi k) | None -> None);
           let rec rem l = match l with [] -> [] | (k', v') :: r -> if k = k' then r else (k', v') :: rem r in
           spec := rem !spec;
           (int_of_nat (find_cmps zcmp before (zi k)), false, k)
         | _ -> (0, true, 0)) in
      if List.length !spec > !maxn then maxn := List.length !spec;
      (* ---- S on the implementation's observation for this op *)
      (if serial < Array.length impl_obs && not !dead then begin
        try
          let fields = words impl_obs.(serial) in
          if List.mem "PANIC" fields then (add "kind=panic"; dead := true) else begin
          let geti p = List.filter_map (fun w -> let lp = String.length p in
              if String.length w >= lp && String.sub w 0 lp = p then Some (String.sub w lp (String.length w - lp)) else None) fields in
          let get1 p = List.hd (geti p) in
          let il s = if s = "." then [] else List.map int_of_string (String.split_on_char ',' s) in
          let vals = List.map snd !spec in
          if int_of_string (get1 "n=") <> List.length !spec then add "kind=count";
          if il (get1 "t=") <> vals then add "kind=traverse-order";
          let rec visit l = match l with [] -> [] | v :: r -> if v mod 7 <> !stop then v :: visit r else [v] in
          if il (get1 "r=") <> visit (List.rev vals) then add "kind=reverse-traverse";
          if get1 "f=" <> (match vals with [] -> "." | v :: _ -> string_of_int v) then add "kind=first";
          if get1 "l=" <> (match List.rev vals with [] -> "." | v :: _ -> string_of_int v) then add "kind=last";
          let gs = geti "g=" and ges = geti "ge=" and les = geti "le=" in
          List.iteri (fun i k ->
            let want_g = (match List.find_opt (fun (k', _) -> k' = k) !spec with Some (_, v) -> string_of_int v | None -> ".") in
            if List.nth gs i <> want_g then add "kind=get-first-equal";
            let suffix = List.map snd (List.filter (fun (k', _) -> k' >= k) !spec) in
            if il (List.nth ges i) <> visit suffix then add "kind=traverse-starting-at";
            let prefix = List.rev (List.map snd (List.filter (fun (k', _) -> k' <= k) !spec)) in
            let rec visit2 l = match l with [] -> [] | v :: r -> if v mod 7 <> (!stop + 3) mod 7 then v :: visit2 r else [v] in
            if il (List.nth les i) <> visit2 prefix then add "kind=reverse-traverse-starting-at") !probes;
          (* balance: the implementation's own shape must satisfy the red-black invariants *)
          let shape = parse_dump (get1 "d=") in
          if not (rb shape) || not (isBlack shape) then add "kind=red-black-invariant";
          if List.map (fun (k, _) -> iz k) (inorder shape) <> List.map fst !spec then add "kind=shape-keys";
          let bound = 2 * log2 (nbefore + 1) + 2 in
          if int_of_string (get1 "c=") > bound then add "kind=comparison-bound"
          end
        with _ -> add "kind=malformed-observation"
      end else if not !dead then add "kind=observation-count");
      ignore isins; ignore key;
      (* ---- K: the model's observation *)
      match !t with
      | None -> "MODEL-STUCK"
      | Some x ->
        let buf = Buffer.create 256 in
        Buffer.add_string buf (Printf.sprintf "n=%d c=%d d=%s" (int_of_nat (size x)) cm (dump x));
        Buffer.add_string buf (Printf.sprintf " t=%s r=%s" (zs (fst (trav x vis_all))) (zs (fst (rtrav x vis_stop))));
        Buffer.add_string buf (" f=" ^ (match first x with Some v -> string_of_int (iz v) | None -> "."));
        Buffer.add_string buf (" l=" ^ (match last x with Some v -> string_of_int (iz v) | None -> "."));
        List.iter (fun k ->
          Buffer.add_string buf (Printf.sprintf " g=%s ge=%s le=%s"
            (match get zcmp x (zi k) with Some v -> string_of_int (iz v) | None -> ".")
            (zs (fst (trav_ge zcmp x (zi k) vis_stop))) (zs (fst (trav_le zcmp x (zi k) vis_stop2))))) !probes;
        Buffer.contents buf) ops in
    let verdict = if !errs = [] then "ok" else "FAIL " ^ String.concat "," (List.rev !errs) in
    let cls = if List.length ops < 3 then "short-trivial" else
      (if !dups then "dups" else "nodups") ^ (if !maxn >= 16 then "+big" else "+small") in
    (String.concat " / " outs, verdict, cls)
  | _ -> ("BADCASE", "ok", "bad")

let () = drive run
