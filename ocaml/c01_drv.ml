(* C01 driver. K: every method on the extracted model. S: the theorems' right-hand sides (Z mod 2^128 arithmetic, order, bits)
   computed with zarith, independently of the model, and compared with the implementation's own answers. *)
let p64 = BZ.shift_left BZ.one 64
let p128 = BZ.shift_left BZ.one 128
let p127 = BZ.shift_left BZ.one 127
let p63 = BZ.shift_left BZ.one 63
let hexz (v : BZ.t) = BZ.format "%x" v
let mk_of h l = { hi = z_of_bz h; lo = z_of_bz l }
let pr (u : w128) = hexz (bz_of_z u.hi) ^ ":" ^ hexz (bz_of_z u.lo)
let pru (v : BZ.t) = (* canonical rendering of a value in [0,2^128) *)
  let v = BZ.erem v p128 in hexz (BZ.shift_right v 64) ^ ":" ^ hexz (BZ.logand v (BZ.pred p64))
let b2s b = if b then "1" else "0"
let ires f = function Ok a -> f a | DivZero -> "PANIC(div0)" | OutOfFuel -> "MODEL-OUT-OF-FUEL"
let zs v = string_of_z v

let run (c : string) (obs : string) : string * string * string =
  match words c with
  | [a0; a1; b0; b1; sh; bit] ->
    let h s = BZ.of_string_base 16 s in
    let ah = h a0 and al = h a1 and bh = h b0 and bl = h b1 in
    let a = mk_of ah al and b = mk_of bh bl in
    let shift = int_of_string sh and biti = int_of_string bit in
    let n = z_of_bz bl in
    let sn = to_s64 n in
    let zsh = z_of_int shift and zbit = z_of_int biti in
    let pair (q, r) = pr q ^ "," ^ pr r in
    let model = [
      "Add", pr (m_Add a b); "Sub", pr (m_Sub a b); "Mul", pr (m_Mul a b);
      "Div", ires pr (m_Div a b); "Mod", ires pr (m_Mod a b); "DivMod", ires pair (m_DivMod a b);
      "Cmp", zs (m_Cmp a b); "GT", b2s (m_GreaterThan a b); "GE", b2s (m_GreaterThanOrEqual a b); "EQ", b2s (m_Equal a b);
      "LT", b2s (m_LessThan a b); "LE", b2s (m_LessThanOrEqual a b);
      "And", pr (m_And a b); "Or", pr (m_Or a b); "Xor", pr (m_Xor a b); "AndNot", pr (m_AndNot a b); "AndNot64", pr (m_AndNot64 a b);
      "Add64", pr (m_Add64 a n); "Sub64", pr (m_Sub64 a n); "Mul64", pr (m_Mul64 a n);
      "Div64", ires pr (m_Div64 a n); "Mod64", ires pr (m_Mod64 a n); "DivMod64", ires pair (m_DivMod64 a n);
      "Cmp64", zs (m_Cmp64 a n); "GT64", b2s (m_GreaterThan64 a n); "GE64", b2s (m_GreaterThanOrEqual64 a n); "EQ64", b2s (m_Equal64 a n);
      "LT64", b2s (m_LessThan64 a n); "LE64", b2s (m_LessThanOrEqual64 a n);
      "And64", pr (m_And64 a n); "Or64", pr (m_Or64 a n); "Xor64", pr (m_Xor64 a n);
      "Inc", pr (m_Inc a); "Dec", pr (m_Dec a); "Not", pr (m_Not a); "BitLen", zs (m_BitLen a); "OnesCount", zs (m_OnesCount a);
      "LeadingZeros", zs (m_LeadingZeros a); "TrailingZeros", zs (m_TrailingZeros a); "IsZero", b2s (m_IsZero a);
      "LeftShift", pr (m_LeftShift a zsh); "RightShift", pr (m_RightShift a zsh); "Bit", zs (m_Bit a zbit);
      "SetBit0", pr (m_SetBit a zbit Z0); "SetBit1", pr (m_SetBit a zbit (z_of_int 1));
      "IAdd", pr (m_Add a b); "ISub", pr (m_Sub a b); "IMul", pr (m_Mul a b);
      "IDiv", ires pr (m_IDiv a b); "IMod", ires pr (m_IMod a b); "IDivMod", ires pair (m_IDivMod a b);
      "ICmp", zs (m_ICmp a b); "IGT", b2s (m_IGreaterThan a b); "IGE", b2s (m_IGreaterThanOrEqual a b); "IEQ", b2s (m_Equal a b);
      "ILT", b2s (m_ILessThan a b); "ILE", b2s (m_ILessThanOrEqual a b);
      "IAdd64", pr (m_IAdd64 a sn); "ISub64", pr (m_ISub64 a sn); "IMul64", pr (m_IMul64 a sn);
      "IDiv64", ires pr (m_IDiv64 a sn); "IMod64", ires pr (m_IMod64 a sn); "IDivMod64", ires pair (m_IDivMod64 a sn);
      "ICmp64", zs (m_ICmp64 a sn); "IGT64", b2s (m_IGreaterThan64 a sn); "IGE64", b2s (m_IGreaterThanOrEqual64 a sn); "IEQ64", b2s (m_IEqual64 a sn);
      "ILT64", b2s (m_ILessThan64 a sn); "ILE64", b2s (m_ILessThanOrEqual64 a sn);
      "IInc", pr (m_Inc a); "IDec", pr (m_Dec a); "INeg", pr (m_Neg a); "IAbs", pr (m_Abs a); "IAbsU", pr (m_AbsUint128 a); "ISign", zs (m_ISign a) ] in
    let m = String.concat " " (List.map (fun (k, v) -> k ^ "=" ^ v) model) in
    (* ---- specification side, plain big integers *)
    let ua = BZ.add (BZ.mul ah p64) al and ub = BZ.add (BZ.mul bh p64) bl in
    let sgn v = if BZ.geq v p127 then BZ.sub v p128 else v in
    let sa = sgn ua and sb = sgn ub in
    let un = bl and sn' = (if BZ.geq bl p63 then BZ.sub bl p64 else bl) in
    let cmpi x y = string_of_int (BZ.compare x y) in
    let udiv x y f = if BZ.sign y = 0 then "PANIC(div0)" else f (BZ.div x y) (BZ.rem x y) in     (* truncated; operands >= 0 *)
    let sdiv x y f = if BZ.sign y = 0 then "PANIC(div0)" else f (BZ.div x y) (BZ.rem x y) in     (* zarith div/rem truncate toward zero *)
    let popc v = string_of_int (BZ.popcount v) in
    let bitlen v = string_of_int (if BZ.sign v = 0 then 0 else BZ.numbits v) in
    let tz v = string_of_int (if BZ.sign v = 0 then 128 else BZ.trailing_zeros v) in
    let setbit v i bval = if i < 0 || i > 127 then v else if bval then BZ.logor v (BZ.shift_left BZ.one i) else BZ.logand v (BZ.lognot (BZ.shift_left BZ.one i)) in
    let shl v k = if k >= 128 then BZ.zero else BZ.shift_left v k in
    let shrr v k = if k >= 128 then BZ.zero else BZ.shift_right v k in
    let spec = [
      "Add", pru (BZ.add ua ub); "Sub", pru (BZ.sub ua ub); "Mul", pru (BZ.mul ua ub);
      "Div", udiv ua ub (fun q _ -> pru q); "Mod", udiv ua ub (fun _ r -> pru r); "DivMod", udiv ua ub (fun q r -> pru q ^ "," ^ pru r);
      "Cmp", cmpi ua ub; "GT", b2s (BZ.gt ua ub); "GE", b2s (BZ.geq ua ub); "EQ", b2s (BZ.equal ua ub); "LT", b2s (BZ.lt ua ub); "LE", b2s (BZ.leq ua ub);
      "And", pru (BZ.logand ua ub); "Or", pru (BZ.logor ua ub); "Xor", pru (BZ.logxor ua ub); "AndNot", pru (BZ.logand ua (BZ.lognot ub));
      "AndNot64", pru (BZ.logand ua (BZ.lognot un));
      "Add64", pru (BZ.add ua un); "Sub64", pru (BZ.sub ua un); "Mul64", pru (BZ.mul ua un);
      "Div64", udiv ua un (fun q _ -> pru q); "Mod64", udiv ua un (fun _ r -> pru r); "DivMod64", udiv ua un (fun q r -> pru q ^ "," ^ pru r);
      "Cmp64", cmpi ua un; "GT64", b2s (BZ.gt ua un); "GE64", b2s (BZ.geq ua un); "EQ64", b2s (BZ.equal ua un); "LT64", b2s (BZ.lt ua un); "LE64", b2s (BZ.leq ua un);
      "And64", pru (BZ.logand ua un); "Or64", pru (BZ.logor ua un); "Xor64", pru (BZ.logxor ua un);
      "Inc", pru (BZ.succ ua); "Dec", pru (BZ.pred ua); "Not", pru (BZ.sub (BZ.pred p128) ua); "BitLen", bitlen ua; "OnesCount", popc ua;
      "LeadingZeros", string_of_int (128 - int_of_string (bitlen ua)); "TrailingZeros", tz ua; "IsZero", b2s (BZ.sign ua = 0);
      "LeftShift", pru (shl ua shift); "RightShift", pru (shrr ua shift);
      "Bit", (if biti < 0 || biti > 127 then "0" else b2s (BZ.testbit ua biti));
      "SetBit0", pru (setbit ua biti false); "SetBit1", pru (setbit ua biti true);
      "IAdd", pru (BZ.add sa sb); "ISub", pru (BZ.sub sa sb); "IMul", pru (BZ.mul sa sb);
      "IDiv", sdiv sa sb (fun q _ -> pru q); "IMod", sdiv sa sb (fun _ r -> pru r); "IDivMod", sdiv sa sb (fun q r -> pru q ^ "," ^ pru r);
      "ICmp", cmpi sa sb; "IGT", b2s (BZ.gt sa sb); "IGE", b2s (BZ.geq sa sb); "IEQ", b2s (BZ.equal sa sb); "ILT", b2s (BZ.lt sa sb); "ILE", b2s (BZ.leq sa sb);
      "IAdd64", pru (BZ.add sa sn'); "ISub64", pru (BZ.sub sa sn'); "IMul64", pru (BZ.mul sa sn');
      "IDiv64", sdiv sa sn' (fun q _ -> pru q); "IMod64", sdiv sa sn' (fun _ r -> pru r); "IDivMod64", sdiv sa sn' (fun q r -> pru q ^ "," ^ pru r);
      "ICmp64", cmpi sa sn'; "IGT64", b2s (BZ.gt sa sn'); "IGE64", b2s (BZ.geq sa sn'); "IEQ64", b2s (BZ.equal sa sn'); "ILT64", b2s (BZ.lt sa sn'); "ILE64", b2s (BZ.leq sa sn');
      "IInc", pru (BZ.succ sa); "IDec", pru (BZ.pred sa); "INeg", pru (BZ.neg sa); "IAbs", pru (BZ.abs sa); "IAbsU", pru (BZ.abs sa); "ISign", string_of_int (BZ.sign sa) ] in
    let impl = List.filter_map (fun w -> match String.index_opt w '=' with
      | Some i -> Some (String.sub w 0 i, String.sub w (i + 1) (String.length w - i - 1)) | None -> None) (words obs) in
    let bad = List.filter_map (fun (k, want) ->
      match List.assoc_opt k impl with
      | Some got when got = want -> None
      | Some got -> Some ("kind=" ^ k)
      | None -> Some "kind=missing-result") spec in
    (* cross-relations stated by the property: q*n + r = dividend is implied by the exact quotient/remainder above *)
    let verdict = if bad = [] then "ok" else "FAIL " ^ String.concat "," bad in
    (* class: which division path the unsigned DivMod takes *)
    let lz v = 128 - (if BZ.sign v = 0 then 0 else BZ.numbits v) in
    let cls =
      if BZ.sign ub = 0 then "div-by-zero"
      else if BZ.equal ub BZ.one then "div-by-one"
      else if BZ.sign ah = 0 && BZ.sign bh = 0 then "div-64bit"
      else if BZ.popcount ub = 1 then "div-pow2"
      else if BZ.leq ua ub then "div-le"
      else if lz ub - lz ua > 16 then begin
        if BZ.sign bh = 0 then begin
          (* how many corrections the two quotient-digit estimates of divmod128by64 need (estimate - true digit) *)
          let s = 64 - BZ.numbits bl in
          let v = BZ.shift_left bl s in
          let vn1 = BZ.shift_right v 32 in
          let b32 = BZ.shift_left BZ.one 32 in
          let rem_hi = BZ.rem ah bl in                       (* the second 128/64 step divides (hi mod n, lo) *)
          let u' = BZ.shift_left (BZ.add (BZ.mul rem_hi p64) al) s in
          let un32 = BZ.shift_right u' 64 and un10 = BZ.logand u' (BZ.pred p64) in
          let un1 = BZ.shift_right un10 32 and un0 = BZ.logand un10 (BZ.pred b32) in
          let q1hat = BZ.div un32 vn1 in
          let n1 = BZ.add (BZ.mul un32 b32) un1 in
          let q1 = BZ.div n1 v in
          let un21 = BZ.sub n1 (BZ.mul q1 v) in
          let q0hat = BZ.div un21 vn1 in
          let q0 = BZ.div (BZ.add (BZ.mul un21 b32) un0) v in
          Printf.sprintf "div-by64:c1=%s,c0=%s" (BZ.to_string (BZ.sub q1hat q1)) (BZ.to_string (BZ.sub q0hat q0))
        end else "div-by128" end
      else "div-bin" in
    (m, verdict, cls)
  | _ -> ("BADCASE", "ok", "bad")

let () = drive run
