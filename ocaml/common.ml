(* Shared driver helpers. This text is placed after "module BZ = Z  open <Extracted>" so that positive/z/nat are the
   extracted Coq inductives and BZ is zarith (used only to convert numerals at the boundary). *)
let rec pos_of_bz (n : BZ.t) : positive =
  if BZ.equal n BZ.one then XH
  else if BZ.testbit n 0 then XI (pos_of_bz (BZ.shift_right n 1))
  else XO (pos_of_bz (BZ.shift_right n 1))
let z_of_bz (n : BZ.t) : z =
  let s = BZ.sign n in
  if s = 0 then Z0 else if s > 0 then Zpos (pos_of_bz n) else Zneg (pos_of_bz (BZ.neg n))
let rec bz_of_pos (p : positive) : BZ.t =
  match p with
  | XH -> BZ.one
  | XO q -> BZ.shift_left (bz_of_pos q) 1
  | XI q -> BZ.succ (BZ.shift_left (bz_of_pos q) 1)
let bz_of_z (v : z) : BZ.t = match v with Z0 -> BZ.zero | Zpos p -> bz_of_pos p | Zneg p -> BZ.neg (bz_of_pos p)
let z_of_int (i : int) : z = z_of_bz (BZ.of_int i)
let int_of_z (v : z) : int = BZ.to_int (bz_of_z v)
let z_of_string (s : string) : z = z_of_bz (BZ.of_string s)
let string_of_z (v : z) : string = BZ.to_string (bz_of_z v)
let rec nat_of_int (i : int) : nat = if i <= 0 then O else S (nat_of_int (i - 1))
let rec int_of_nat (n : nat) : int = match n with O -> 0 | S m -> 1 + int_of_nat m

(* byte strings cross the boundary in hex; "-" is the empty string *)
let bytes_of_hex (h : string) : z list =
  if h = "-" then [] else
  List.init (String.length h / 2) (fun i -> z_of_int (int_of_string ("0x" ^ String.sub h (2 * i) 2)))
let hex_of_bytes (l : z list) : string =
  if l = [] then "-" else String.concat "" (List.map (fun b -> Printf.sprintf "%02x" (int_of_z b)) l)

let split_on (sep : string) (s : string) : string list = Str.split_delim (Str.regexp_string sep) s
let words (s : string) : string list = List.filter (fun w -> w <> "") (String.split_on_char ' ' s)

(* main loop: for each "case => obs" line print  "<model obs>\t<spec verdict>\t<class>" *)
let drive (f : string -> string -> string * string * string) : unit =
  (try
    while true do
      let line = input_line stdin in
      let (c, obs) =
        match Str.bounded_split_delim (Str.regexp_string " => ") line 2 with
        | [c; o] -> (c, o) | [c] -> (c, "") | _ -> ("", "") in
      let (m, v, cl) = (try f c obs with e -> ("DRIVER-EXN " ^ Printexc.to_string e, "ok", "exn")) in
      print_string m; print_char '\t'; print_string v; print_char '\t'; print_string cl; print_char '\n'
    done
  with End_of_file -> ())
