(* C09 driver. K: byte-level parser model with symbolic evaluation, on every symbolic case. S: for printed ASTs the result must be
   the conventional tree (precedence, left associativity, unary scope) computed by the generator; nothing may panic or hang;
   the value-level flags (reference evaluation with the library's own operators, layouts, reuse) must all be 1. *)
let nbytes (s : string) : n list = List.init (String.length s) (fun i -> let c = Char.code s.[i] in if c = 0 then N0 else Npos (pos_of_bz (BZ.of_int c)))
let string_of_nbytes (l : n list) : string =
  String.init (List.length l) (fun i -> match List.nth l i with N0 -> '\000' | Npos p -> Char.chr (BZ.to_int (bz_of_pos p)))
let unhex h = if h = "-" then "" else String.init (String.length h / 2) (fun i -> Char.chr (int_of_string ("0x" ^ String.sub h (2 * i) 2)))
let hex s = if s = "" then "-" else String.concat "" (List.init (String.length s) (fun i -> Printf.sprintf "%02x" (Char.code s.[i])))
let funs = [nbytes "f"; nbytes "ab"]

let run (c : string) (obs : string) : string * string * string =
  match words c with
  | "sym" :: h :: exp :: _ ->
    let s = unhex h in
    let m = (match evaluate std_ops funs (nbytes s) with
      | Ok v -> "V " ^ hex (string_of_nbytes v) | Err -> "E" | Panic -> "P" | OutOfFuel -> "MODEL-OUT-OF-FUEL") in
    let errs = ref [] in
    if obs = "P" then errs := "kind=panic" :: !errs;
    if obs = "REUSE-DIFFERS" then errs := "kind=reused-evaluator-differs" :: !errs;
    if exp <> "-" && obs <> "V " ^ exp then errs := "kind=precedence-or-unary-scope" :: !errs;
    ((m), (if !errs = [] then "ok" else "FAIL " ^ String.concat "," !errs), if exp <> "-" then "sym-ast" else "sym-junk")
  | "val" :: _ ->
    let flags = List.filter (fun w -> String.contains w '=') (words obs) in
    let bad = List.filter (fun w -> String.length w > 2 && w.[String.length w - 1] <> '1') flags in
    let v = if obs = "P" then "FAIL kind=panic" else if flags = [] then "FAIL kind=malformed-observation"
      else if bad = [] then "ok" else "FAIL " ^ String.concat "," (List.map (fun w -> "kind=value-" ^ String.sub w 0 (String.index w '=')) bad) in
    (obs, v, "val")
  | ["rob"; _] -> (obs, (if obs = "ok" then "ok" else "FAIL kind=panic"), "rob")
  | _ -> ("BADCASE", "ok", "bad")

let () = drive run
