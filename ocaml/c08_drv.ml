(* C08 driver: K = model observation after every op; S = a plain set of integers (bool array) subjected to the same ops. *)
let zi = z_of_int
let hexd = "0123456789abcdef"
let z_of_hex (s : string) : z = z_of_bz (BZ.of_string_base 16 s)
let hex_of_z (v : z) : string = BZ.format "%x" (bz_of_z v)

let parse_op (o : string) : op option =
  match words o with
  | ["set"; i] -> Some (OSet (zi (int_of_string i)))
  | ["clear"; i] -> Some (OClear (zi (int_of_string i)))
  | ["flip"; i] -> Some (OFlip (zi (int_of_string i)))
  | ["setr"; a; b] -> Some (OSetRange (zi (int_of_string a), zi (int_of_string b)))
  | ["clearr"; a; b] -> Some (OClearRange (zi (int_of_string a), zi (int_of_string b)))
  | ["flipr"; a; b] -> Some (OFlipRange (zi (int_of_string a), zi (int_of_string b)))
  | ["trim"] -> Some OTrim
  | ["ensure"; w] -> Some (OEnsure (zi (int_of_string w)))
  | ["data"] -> Some OData
  | ["reset"] -> Some OReset
  | ["load"; l] -> Some (OLoad (if l = "." then [] else List.map z_of_hex (String.split_on_char ',' l)))
  | ["reload"] -> Some OReload
  | ["copy"] -> Some OCopy
  | ["clone"] -> Some OClone
  | _ -> None

let observe_model (b : bs) (n : int) (starts : int list) : string =
  let buf = Buffer.create 1024 in
  Buffer.add_string buf (Printf.sprintf "c=%s s=" (string_of_z (count b)));
  (* State bitmap from the data words (mem abstraction; theorem C08_state_is_membership ties State to it) *)
  let ws = Array.of_list (List.map bz_of_z b.data) in
  let bit k = let w = k / 64 in w < Array.length ws && BZ.testbit ws.(w) (k mod 64) in
  let i = ref 0 in
  while !i < n do
    let v = ref 0 in
    for j = 0 to 3 do if !i + j < n && bit (!i + j) then v := !v lor (1 lsl j) done;
    Buffer.add_char buf hexd.[!v]; i := !i + 4
  done;
  (* and State itself at a few probes *)
  List.iter (fun k -> if k < n && state b (zi k) <> bit k then Buffer.add_string buf "STATE-DISAGREES-WITH-WORDS") starts;
  Buffer.add_string buf (Printf.sprintf " q=%s,%s" (string_of_z (first_set b)) (string_of_z (last_set b)));
  List.iter (fun s -> let s = zi s in
    Buffer.add_string buf (Printf.sprintf ",%s,%s,%s,%s" (string_of_z (next_set b s)) (string_of_z (previous_set b s))
      (string_of_z (next_clear b s)) (string_of_z (previous_clear b s)))) starts;
  (* twins *)
  let twin = ensure { data = (trim b).data; cnt = b.cnt } (zi ((n + 63) / 64 + 3)) in
  let e1 = equal b twin and e2 = equal twin b in
  let t2 = flip twin (zi (n / 2)) in
  let e3 = equal b t2 and e4 = equal t2 b in
  let b2s x = if x then "1" else "0" in
  Buffer.add_string buf (" e=" ^ b2s e1 ^ b2s e2 ^ b2s e3 ^ b2s e4);
  Buffer.contents buf

(* reference set semantics on a bool array of size big enough *)
let spec_check (n : int) (starts : int list) (ops : string list) (obs : string list) : string =
  let size = n + 1400 in
  let a = Array.make size false in
  let errs = ref [] in
  let add k = if not (List.mem k !errs) then errs := k :: !errs in
  let rng x y f = let lo = min x y and hi = max x y in for i = lo to min hi (size - 1) do f i done in
  let rec go ops obs =
    match ops, obs with
    | [], [] -> ()
    | o :: ops', ob :: obs' ->
      (match words o with
       | ["set"; i] -> a.(int_of_string i) <- true
       | ["clear"; i] -> a.(int_of_string i) <- false
       | ["flip"; i] -> let i = int_of_string i in a.(i) <- not a.(i)
       | ["setr"; x; y] -> rng (int_of_string x) (int_of_string y) (fun i -> a.(i) <- true)
       | ["clearr"; x; y] -> rng (int_of_string x) (int_of_string y) (fun i -> a.(i) <- false)
       | ["flipr"; x; y] -> rng (int_of_string x) (int_of_string y) (fun i -> a.(i) <- not a.(i))
       | ["trim"] | ["ensure"; _] | ["data"] | ["reload"] | ["copy"] | ["clone"] -> ()
       | ["reset"] -> Array.fill a 0 size false
       | ["load"; l] -> Array.fill a 0 size false;
         if l <> "." then List.iteri (fun wi w -> let v = BZ.of_string_base 16 w in
           for j = 0 to 63 do if BZ.testbit v j then a.(wi * 64 + j) <- true done) (String.split_on_char ',' l)
       | _ -> add "kind=malformed-case");
      (* compare the implementation's observation with the set *)
      (try
        let fields = words ob in
        let get p = let f = List.find (fun w -> String.length w > 2 && String.sub w 0 2 = p) fields in String.sub f 2 (String.length f - 2) in
        let card = ref 0 in Array.iter (fun x -> if x then incr card) a;
        if int_of_string (get "c=") <> !card then add "kind=count";
        let s = get "s=" in
        for i = 0 to n - 1 do
          let d = String.index hexd s.[i / 4] in
          if ((d lsr (i mod 4)) land 1 = 1) <> a.(i) then add "kind=state"
        done;
        (* nothing may be set beyond n in the reference unless an op put it there: n is chosen >= max index + 130 *)
        let q = List.map int_of_string (String.split_on_char ',' (get "q=")) in
        let next_set s = let r = ref (-1) in (try for i = s to size - 1 do if a.(i) then (r := i; raise Exit) done with Exit -> ()); !r in
        let prev_set s = let r = ref (-1) in (try for i = min s (size - 1) downto 0 do if a.(i) then (r := i; raise Exit) done with Exit -> ()); !r in
        let next_clear s = let r = ref (-1) in (try for i = s to size - 1 do if not a.(i) then (r := i; raise Exit) done with Exit -> ()); !r in
        let prev_clear s = let r = ref (-1) in (try for i = min s (size - 1) downto 0 do if not a.(i) then (r := i; raise Exit) done with Exit -> ()); !r in
        (match q with
         | fs :: ls :: rest ->
           if fs <> next_set 0 then add "kind=first-set";
           if ls <> prev_set (size - 1) then add "kind=last-set";
           let rec chk starts rest = match starts, rest with
             | st :: starts', ns :: ps :: nc :: pc :: rest' ->
               if ns <> next_set st then add "kind=next-set";
               if ps <> prev_set st then add "kind=previous-set";
               if nc <> next_clear st then add "kind=next-clear";
               if pc <> prev_clear st then add "kind=previous-clear";
               chk starts' rest'
             | [], [] -> ()
             | _ -> add "kind=malformed-observation" in
           chk starts rest
         | _ -> add "kind=malformed-observation");
        if get "e=" <> "1100" then add "kind=equal";
        (match List.find_opt (fun w -> String.length w > 2 && String.sub w 0 2 = "d=") fields with
         | Some d ->
           let d = String.sub d 2 (String.length d - 2) in
           (* canonical data of the set: words up to the last set bit *)
           let last = prev_set (size - 1) in
           let nw = if last < 0 then 0 else last / 64 + 1 in
           let ws = List.init nw (fun wi -> let v = ref BZ.zero in
             for j = 0 to 63 do if a.(wi * 64 + j) then v := BZ.logor !v (BZ.shift_left BZ.one j) done; BZ.format "%x" !v) in
           let want = if nw = 0 then "." else String.concat "," ws in
           if d <> want then add "kind=data"
         | None -> ());
        if List.mem "load-modified-argument" fields then add "kind=load-modified-argument";
        if List.mem "PANIC" fields then add "kind=panic"
      with _ -> add "kind=malformed-observation");
      go ops' obs'
    | _ -> add "kind=observation-count" in
  go ops obs;
  if !errs = [] then "ok" else "FAIL " ^ String.concat "," (List.rev !errs)

let run (c : string) (obs : string) : string * string * string =
  match split_on "|" c with
  | [hdr; body] ->
    let n = ref 0 and starts = ref [] in
    List.iter (fun f ->
      if String.length f > 2 && String.sub f 0 2 = "n=" then n := int_of_string (String.sub f 2 (String.length f - 2));
      if String.length f > 7 && String.sub f 0 7 = "starts=" then
        starts := List.map int_of_string (String.split_on_char ',' (String.sub f 7 (String.length f - 7)))) (words hdr);
    let ops = List.filter (fun o -> words o <> []) (String.split_on_char ';' body) in
    let b = ref empty in
    let outs = List.map (fun o ->
      match parse_op o with
      | None -> "BADOP"
      | Some p ->
        let extra = (match p with
          | OData -> let (_, d) = get_data !b in " d=" ^ (if d = [] then "." else String.concat "," (List.map hex_of_z d))
          | _ -> "") in
        b := step !b p;
        observe_model !b !n !starts ^ extra) ops in
    let verdict = spec_check !n !starts ops (split_on " / " obs) in
    let nr = List.length (List.filter (fun o -> match words o with ("setr" | "clearr" | "flipr") :: _ -> true | _ -> false) ops) in
    (String.concat " / " outs, verdict, (if List.length ops < 3 then "short-trivial" else if nr > 0 then "with-ranges" else "single-bit-ops"))
  | _ -> ("BADCASE", "ok", "bad")

let () = drive run
