(* C02 driver. K: the model's renderings, conversions and predicates. S (exact integer / rational arithmetic in zarith, on the
   implementation's own answers): the decimal text denotes the value; every round trip and every fmt verb agrees (flags
   computed by the harness against math/big); FromBigInt and FromString clamp; FromFloat64 = clamp(trunc f), NaN -> 0;
   AsFloat64 has the value's sign, is exact below 2^53 and within one unit in the last place; Is* <-> As* preserves the value. *)
let p64 = BZ.shift_left BZ.one 64 and p128 = BZ.shift_left BZ.one 128 and p127 = BZ.shift_left BZ.one 127 and p63 = BZ.shift_left BZ.one 63
let uval h l = BZ.add (BZ.mul h p64) l
let sval h l = let u = uval h l in if BZ.geq h p63 then BZ.sub u p128 else u
let clamp lo hi z = if BZ.lt z lo then lo else if BZ.gt z hi then hi else z
let show_w w = Printf.sprintf "%s:%s" (string_of_z (m_hi w)) (string_of_z (m_lo w))
let str_of_bytes l = String.init (List.length l) (fun i -> Char.chr (int_of_z (List.nth l i)))
let field ws k = let pre = k ^ "=" in let n = String.length pre in
  let rec go = function [] -> "" | w :: r -> if String.length w >= n && String.sub w 0 n = pre then String.sub w n (String.length w - n) else go r in go ws
let parse_w s = match String.split_on_char ':' s with [h; l] -> (BZ.of_string h, BZ.of_string l) | _ -> (BZ.zero, BZ.zero)
let show_f (negz, v) = let v = bz_of_z v in if BZ.sign v = 0 then (if negz then "-0" else "0") else BZ.to_string v
(* ulp of the double nearest to |x| > 0: 2^(floor(log2 |x|) - 52) *)
let ulp x = let n = BZ.numbits (BZ.abs x) in if n <= 53 then BZ.one else BZ.shift_left BZ.one (n - 53)

let run (c : string) (obs : string) : string * string * string =
  let errs = ref [] in
  let add k = if not (List.mem k !errs) then errs := k :: !errs in
  if obs = "P" then add "kind=panic";
  let ws = words obs in
  let verdict () = if !errs = [] then "ok" else "FAIL " ^ String.concat "," (List.rev !errs) in
  match words c with
  | ["v"; h; l] ->
    let hz = BZ.of_string h and lz = BZ.of_string l in
    let w = m_mk (z_of_bz hz) (z_of_bz lz) in
    let model = Printf.sprintf "us=%s is=%s rt=1 verbs=1 uf=%s if=%s nar=%s" (str_of_bytes (m_ustring w)) (str_of_bytes (m_istring w))
      (show_f (m_uasfloat w)) (show_f (m_iasfloat w)) (String.concat "," (List.map string_of_z (m_nar w))) in
    (* S *)
    let uv = uval hz lz and sv = sval hz lz in
    if !errs = [] then begin
      if field ws "us" <> BZ.to_string uv || field ws "is" <> BZ.to_string sv then add "kind=decimal-text-is-not-the-value";
      if field ws "rt" <> "1" then add "kind=a-rendering-does-not-parse-back-to-the-value";
      if field ws "verbs" <> "1" then add "kind=fmt-or-bigint-rendering-differs-from-the-value";
      let chk_float name s v =
        (match s with
         | "NaN" | "+Inf" | "-Inf" | "NONINTEGER" -> add ("kind=" ^ name ^ "-not-finite-integer")
         | _ ->
           let negz = (s = "-0") in
           let fv = if negz then BZ.zero else BZ.of_string s in
           if BZ.sign v = 0 then (if BZ.sign fv <> 0 || negz then add ("kind=" ^ name ^ "-of-zero"))
           else begin
             if BZ.sign fv <> BZ.sign v then add ("kind=" ^ name ^ "-sign");
             if BZ.lt (BZ.abs v) (BZ.shift_left BZ.one 53) && not (BZ.equal fv v) then add ("kind=" ^ name ^ "-not-exact-below-2^53");
             if BZ.gt (BZ.abs (BZ.sub fv v)) (ulp v) then add ("kind=" ^ name ^ "-more-than-one-ulp-off")
           end) in
      chk_float "uint128-asfloat64" (field ws "uf") uv;
      chk_float "int128-asfloat64" (field ws "if") sv;
      (match String.split_on_char ',' (field ws "nar") with
       | [ui128; uu64; uas64; iu128; ii64; ias64; iu64; iasu64] ->
         let is x = (x = "1") in
         if is ui128 <> BZ.lt uv p127 then add "kind=narrowing-IsInt128";
         if is uu64 <> BZ.equal (BZ.of_string uas64) uv then add "kind=narrowing-Uint128-IsUint64";
         if is iu128 <> (BZ.sign sv >= 0) then add "kind=narrowing-IsUint128";
         if is ii64 <> BZ.equal (BZ.of_string ias64) sv then add "kind=narrowing-IsInt64";
         if is iu64 <> BZ.equal (BZ.of_string iasu64) sv then add "kind=narrowing-Int128-IsUint64"
       | _ -> add "kind=malformed-observation")
    end;
    (model, verdict (), "value" ^ (if BZ.sign hz = 0 then "-64bit" else if BZ.geq hz p63 then "-negative" else "-wide"))
  | ["big"; z] ->
    let zz = BZ.of_string z in
    let model = Printf.sprintf "u=%s i=%s" (show_w (m_ufrombig (z_of_bz zz))) (show_w (m_ifrombig (z_of_bz zz))) in
    if !errs = [] then begin
      let (uh, ul) = parse_w (field ws "u") and (ih, il) = parse_w (field ws "i") in
      if not (BZ.equal (uval uh ul) (clamp BZ.zero (BZ.pred p128) zz)) then add "kind=uint128-frombigint-not-clamped-value";
      if not (BZ.equal (sval ih il) (clamp (BZ.neg p127) (BZ.pred p127) zz)) then add "kind=int128-frombigint-not-clamped-value"
    end;
    (model, verdict (), "big" ^ (if BZ.numbits zz > 128 then "-out-of-range" else ""))
  | ["str"; hx] ->
    let s = if hx = "-" then [] else bytes_of_hex hx in
    let txt = str_of_bytes s in
    let decimal = (let n = String.length txt in n > 0 && (let body = if txt.[0] = '-' || txt.[0] = '+' then String.sub txt 1 (n - 1) else txt in
      body <> "" && String.for_all (fun ch -> ch >= '0' && ch <= '9') body && (body = "0" || body.[0] <> '0'))) in   (* a leading 0 selects octal in math/big's base-0 reading *)
    let sh = function Some w -> show_w w ^ ",0" | None -> "0:0,1" in
    let all_digits_signs = String.for_all (fun ch -> (ch >= '0' && ch <= '9') || ch = '-' || ch = '+') txt in
    let leading_zero = (let n = String.length txt in n > 1 && (let body = if txt.[0] = '-' || txt.[0] = '+' then String.sub txt 1 (n - 1) else txt in
      String.length body > 1 && body.[0] = '0' && String.for_all (fun ch -> ch >= '0' && ch <= '9') body)) in
    ignore all_digits_signs;
    let other_spelling = String.exists (fun ch -> String.contains "xXoObBeE_." ch) txt || leading_zero in
    let model = if decimal || not other_spelling
      then Printf.sprintf "u=%s i=%s nc=1" (sh (m_ufromstring s)) (sh (m_ifromstring s)) else obs (* other spellings big.Int / big.Float accept: not modelled *) in
    if !errs = [] then begin
      let (uw, ue) = (match String.split_on_char ',' (field ws "u") with [w; e] -> (parse_w w, e) | _ -> ((BZ.zero, BZ.zero), "?")) in
      let (iw, ie) = (match String.split_on_char ',' (field ws "i") with [w; e] -> (parse_w w, e) | _ -> ((BZ.zero, BZ.zero), "?")) in
      if field ws "nc" <> "1" then add "kind=nocheck-variant-differs";
      if decimal then begin
        let zz = BZ.of_string (if txt.[0] = '+' then String.sub txt 1 (String.length txt - 1) else txt) in
        if ue <> "0" || ie <> "0" then add "kind=integer-text-rejected";
        if not (BZ.equal (uval (fst uw) (snd uw)) (clamp BZ.zero (BZ.pred p128) zz)) then add "kind=uint128-fromstring-not-clamped-value";
        if not (BZ.equal (sval (fst iw) (snd iw)) (clamp (BZ.neg p127) (BZ.pred p127) zz)) then add "kind=int128-fromstring-not-clamped-value"
      end else if (try ignore (Str.search_forward (Str.regexp "^[+-]?[0-9]+\\(\\.[0-9]+\\)?[eE][+-]?[0-9]+$") txt 0); true with Not_found -> false) then begin
        (* exponent notation: accepted exactly when it denotes an integer, and then clamped like any other *)
        let lower = String.lowercase_ascii txt in
        let ei = String.index lower 'e' in
        let mant = String.sub lower 0 ei and ex = int_of_string (let e = String.sub lower (ei + 1) (String.length lower - ei - 1) in if e.[0] = '+' then String.sub e 1 (String.length e - 1) else e) in
        let mant = if mant.[0] = '+' then String.sub mant 1 (String.length mant - 1) else mant in
        let (ip, fp) = (match String.index_opt mant '.' with Some d -> (String.sub mant 0 d, String.sub mant (d + 1) (String.length mant - d - 1)) | None -> (mant, "")) in
        let q = BQ.make (BZ.of_string (ip ^ fp)) (BZ.pow (BZ.of_int 10) (String.length fp)) in
        if abs ex <= 60 then begin
          let q = if ex >= 0 then BQ.mul q (BQ.of_bigint (BZ.pow (BZ.of_int 10) ex)) else BQ.div q (BQ.of_bigint (BZ.pow (BZ.of_int 10) (- ex))) in
          if BZ.equal (BQ.den q) BZ.one then begin
            let zz = BQ.num q in
            if ue <> "0" || ie <> "0" then add "kind=integer-text-rejected";
            if not (BZ.equal (uval (fst uw) (snd uw)) (clamp BZ.zero (BZ.pred p128) zz)) then add "kind=uint128-fromstring-not-clamped-value";
            if not (BZ.equal (sval (fst iw) (snd iw)) (clamp (BZ.neg p127) (BZ.pred p127) zz)) then add "kind=int128-fromstring-not-clamped-value"
          end else if ue <> "1" || ie <> "1" then add "kind=non-integer-text-accepted"
        end
      end else if not other_spelling then begin
        (* neither a decimal integer nor one of the other integer spellings: must be rejected *)
        if ue <> "1" || ie <> "1" then add "kind=non-integer-text-accepted"
      end
    end;
    (model, verdict (), if decimal then "text-decimal" else "text-other")
  | ["flt"; bits] ->
    let f = m_decode (z_of_bz (BZ.of_string bits)) in
    let model = Printf.sprintf "u=%s i=%s" (show_w (m_ufromfloat f)) (show_w (m_ifromfloat f)) in
    if !errs = [] then begin
      let (uh, ul) = parse_w (field ws "u") and (ih, il) = parse_w (field ws "i") in
      let b = BZ.of_string bits in
      let neg = BZ.geq b p63 in
      let bb = BZ.rem b p63 in
      let ex = BZ.to_int (BZ.shift_right bb 52) and fr = BZ.rem bb (BZ.shift_left BZ.one 52) in
      let expect_u, expect_i =
        if ex = 2047 then (if BZ.sign fr <> 0 then (BZ.zero, BZ.zero) else if neg then (BZ.zero, BZ.neg p127) else (BZ.pred p128, BZ.pred p127))
        else begin
          let (m, e) = if ex = 0 then (fr, -1074) else (BZ.add fr (BZ.shift_left BZ.one 52), ex - 1075) in
          let t = if e >= 0 then BZ.shift_left m e else BZ.shift_right m (- e) in        (* trunc toward zero of |f| *)
          let v = if neg then BZ.neg t else t in
          (clamp BZ.zero (BZ.pred p128) v, clamp (BZ.neg p127) (BZ.pred p127) v)
        end in
      if not (BZ.equal (uval uh ul) expect_u) then add "kind=uint128-fromfloat64-not-clamped-truncation";
      if not (BZ.equal (sval ih il) expect_i) then add "kind=int128-fromfloat64-not-clamped-truncation"
    end;
    (model, verdict (), "float")
  | _ -> ("BADCASE", "ok", "bad")

let () = drive run
