(* C15 driver. K (gated cases): the model run to quiescence after every environment move - Submit calls returned, tasks
   started / finished / reported to the handler, Shutdown returned. S, on the implementation's own observations: no task starts
   twice, never more than Workers tasks are running, one worker starts tasks in submission order, a panic is reported exactly once
   and only for a panicking task that finished, Shutdown returns only when every task has finished, nothing hangs at the end.
   Free-running cases: the five flags computed by the harness from its event stamps must all be 1. *)
let ints s = if s = "" then [] else List.map int_of_string (String.split_on_char ',' s)
let show l = String.concat "," (List.map string_of_int l)
let field (w : string) (k : string) : string =
  let pre = k ^ "=" in let n = String.length pre in
  if String.length w >= n && String.sub w 0 n = pre then String.sub w n (String.length w - n) else raise Not_found
let get ws k = let rec go = function [] -> "" | w :: r -> (try field w k with Not_found -> go r) in go ws

let run (c : string) (obs : string) : string * string * string =
  let toks = List.filter (fun o -> words o <> []) (String.split_on_char ';' c) in
  match List.map words toks with
  | ("free" :: _) :: _ ->
    let flags = List.filter (fun w -> String.contains w '=') (words obs) in
    let bad = List.filter (fun w -> w.[String.length w - 1] <> '1') flags in
    let v = if obs = "SHUTDOWN-HUNG" then "FAIL kind=shutdown-hung" else if obs = "HANG" then "FAIL kind=hang"
      else if List.length flags <> 5 then "FAIL kind=malformed-observation"
      else if bad = [] then "ok" else "FAIL " ^ String.concat "," (List.map (fun w -> "kind=free-" ^ String.sub w 0 (String.index w '=')) bad) in
    ("once=1 maxok=1 order=1 handled=1 sdafter=1", v, "free")
  | ("cfg" :: w :: d :: total :: pan :: hopt) :: rest ->
    let with_handler = hopt <> ["nohandler"] in
    let workers = int_of_string w and total = int_of_string total in
    let panics = if pan = "-" then [] else ints pan in
    let (cin, body) = (match String.index_opt obs '|' with
      | Some i when String.length obs > 4 && String.sub obs 0 4 = "cin=" -> (int_of_string (String.sub obs 4 (i - 4)), String.sub obs (i + 1) (String.length obs - i - 1))
      | _ -> (32, obs)) in
    (* "allow n" is carried out one task at a time (each from a quiescent state); only the observation after the last one is compared *)
    let cur = ref 0 in
    let expanded = List.concat_map (function
      | ["allow"; n] -> let n = min (int_of_string n) total in
        let l = if n <= !cur then [(SAllow (nat_of_int !cur), true)] else List.init (n - !cur) (fun k -> (SAllow (nat_of_int (!cur + k + 1)), k = n - !cur - 1)) in
        cur := max !cur n; l
      | ["rel"; t] -> [(SRel (nat_of_int (int_of_string t)), true)]
      | ["shutdown"] -> [(SShutdown, true)] | _ -> []) rest in
    let cfg = m_mk_cfg (nat_of_int workers) (z_of_int (int_of_string d)) (nat_of_int cin) (List.map nat_of_int panics) in
    let res_all = m_run_script cfg (nat_of_int total) (m_start_script cfg (nat_of_int total)) (List.map fst expanded) in
    let res = List.filter_map (fun ((_, keep), o) -> if keep then Some o else None) (List.combine expanded res_all) in
    let norm l = let l = List.map int_of_nat l in if workers = 1 then l else List.sort compare l in
    let show_obs o =
      if o.o_panic then "DISPATCHER-PANIC" else
      Printf.sprintf "sub=%d st=%s fin=%s h=%s sd=%d skip=%d" (int_of_nat o.o_submitted) (show (norm o.o_started)) (show (norm o.o_finished))
        (if with_handler then show (List.sort compare (List.map int_of_nat o.o_handled)) else "") (if o.o_shutdown then 1 else 0) (if o.o_skipped then 1 else 0) in
    let model = Printf.sprintf "cin=%d|%s" cin (String.concat " / " (List.map show_obs res)) in
    let errs = ref [] in
    let add k = if not (List.mem k !errs) then errs := k :: !errs in
    if obs = "HANG" then add "kind=hang";
    if obs = "CRASH" then add "kind=process-crash";
    if obs = "P" then add "kind=panic";
    let steps = if body = "" then [] else split_on " / " body in
    let blocked = ref false in
    List.iter (fun s ->
      if s = "CLEANUP-SHUTDOWN-HUNG" then add "kind=shutdown-hung"
      else if s = "CLEANUP-SUBMIT-HUNG" then add "kind=submit-hung"
      else begin
        let ws = words s in
        let st = ints (get ws "st") and fin = ints (get ws "fin") and h = ints (get ws "h") in
        let sub = (try int_of_string (get ws "sub") with _ -> 0) in
        if List.length (List.sort_uniq compare st) <> List.length st then add "kind=task-started-twice";
        if List.length (List.sort_uniq compare fin) <> List.length fin then add "kind=task-finished-twice";
        if List.exists (fun t -> not (List.mem t st)) fin then add "kind=finished-without-start";
        if List.exists (fun t -> t >= sub) st then add "kind=started-before-submitted";
        if List.length st - List.length fin > workers then add "kind=more-than-workers-running";
        if workers = 1 && st <> List.init (List.length st) (fun i -> i) then add "kind=one-worker-order";
        if List.length (List.sort_uniq compare h) <> List.length h then add "kind=panic-reported-twice";
        if List.exists (fun t -> not (List.mem t panics && List.mem t fin)) h then add "kind=spurious-panic-report";
        if with_handler && List.exists (fun t -> List.mem t panics && not (List.mem t h)) fin then add "kind=panic-not-reported";
        if get ws "sd" = "1" && List.length fin <> total then add "kind=shutdown-before-all-finished";
        if sub < total then blocked := true
      end) steps;
    (match List.rev steps with
     | last :: _ when last <> "CLEANUP-SHUTDOWN-HUNG" && last <> "CLEANUP-SUBMIT-HUNG" && !errs = [] ->
       let ws = words last in
       (* every generated script ends with everything allowed, released and Shutdown called *)
       if get ws "sd" <> "1" || List.length (ints (get ws "fin")) <> total then add "kind=not-everything-ran-before-shutdown-returned"
     | _ -> ());
    let cls = "gated" ^ (if !blocked then "+submit-blocked" else "") ^ (if panics <> [] then "+panics" else "") in
    (model, (if !errs = [] then "ok" else "FAIL " ^ String.concat "," (List.rev !errs)), cls)
  | _ -> ("BADCASE", "ok", "bad")

let () = drive run
