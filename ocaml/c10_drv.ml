(* C10 driver. K: the model's outcome (Fatal <-> exit status 1; Done -> final option values from the defaults and the
   assignment list, and the remaining arguments). S: the outcome the intent demands (token I:), computed by the generator
   from the assignments it spelled, never from the library; nothing may panic or hang. *)
let utf8_decode (s : string) : z list =
  let n = String.length s in
  let rec go i acc =
    if i >= n then List.rev acc else
    let c = Char.code s.[i] in
    let cont k = Char.code s.[i + k] land 0x3f in
    if c < 0x80 then go (i + 1) (z_of_int c :: acc)
    else if c < 0xe0 && i + 1 < n then go (i + 2) (z_of_int (((c land 0x1f) lsl 6) lor cont 1) :: acc)
    else if c < 0xf0 && i + 2 < n then go (i + 3) (z_of_int (((c land 0x0f) lsl 12) lor (cont 1 lsl 6) lor cont 2) :: acc)
    else if i + 3 < n then go (i + 4) (z_of_int (((c land 0x07) lsl 18) lor (cont 1 lsl 12) lor (cont 2 lsl 6) lor cont 3) :: acc)
    else go (i + 1) (z_of_int c :: acc) in
  go 0 []
let utf8_encode (l : z list) : string =
  let b = Buffer.create 16 in
  List.iter (fun cz -> Buffer.add_utf_8_uchar b (Uchar.of_int (int_of_z cz))) l;
  Buffer.contents b
let raw_of (x : string) : string =    (* "x"+hex -> bytes *)
  let h = String.sub x 1 (String.length x - 1) in
  String.init (String.length h / 2) (fun i -> Char.chr (int_of_string ("0x" ^ String.sub h (2 * i) 2)))
let dec x = utf8_decode (raw_of x)
let enc (l : z list) = "x" ^ String.concat "" (List.map (fun c -> Printf.sprintf "%02x" (Char.code c)) (List.of_seq (String.to_seq (utf8_encode l))))
let dec_list s = if s = "" then [] else List.map dec (String.split_on_char ',' s)

let rec kind_of_code (k : string) : kind =
  if k.[0] = '*' then KSlice (kind_of_code (String.sub k 1 (String.length k - 1))) else
  match k with
  | "b" -> KBool | "s" -> KStr | "d" -> KDur | "f32" | "f64" -> KFloat
  | "i" -> KInt (z_of_int 64, true) | "u" -> KInt (z_of_int 64, false)
  | _ -> KInt (z_of_int (int_of_string (String.sub k 1 (String.length k - 1))), k.[0] = 'i')

let float_canon = [("1.5", "1.5"); ("-2", "-2"); ("0.25", "0.25"); ("1e3", "1000"); ("+7", "7"); (".5", "0.5")]
let dur_canon = [("1s", "1000000000"); ("90s", "90000000000"); ("2h", "7200000000000"); ("1.5h", "5400000000000"); ("300ms", "300000000"); ("0", "0")]
let rec canon (k : kind) (v : z list) : string =
  match k with
  | KBool -> if List.mem (utf8_encode v) ["1"; "t"; "T"; "TRUE"; "true"; "True"] then "true" else "false"
  | KStr -> enc v
  | KInt _ -> (match m_int_value v with Some n -> string_of_z n | None -> "?")
  | KFloat -> (try List.assoc (utf8_encode v) float_canon with Not_found -> "?")
  | KDur -> (try List.assoc (utf8_encode v) dur_canon with Not_found -> "?")
  | KSlice e -> canon e v
let zero_of (k : kind) = match k with KBool -> "false" | KStr -> "x" | _ -> "0"

let run (c : string) (obs : string) : string * string * string =
  let toks = String.split_on_char ';' c in
  let opts = ref [] and args = ref [] and files = ref [] and intent = ref None in
  List.iter (fun t ->
    if String.length t > 2 && String.sub t 0 2 = "I:" then intent := Some (String.sub t 2 (String.length t - 2)) else
    match String.split_on_char ':' t with
    | ["o"; k; s; n; d] ->
      let single = if s = "0" then None else Some (z_of_int (int_of_string s)) in
      let name = if n = "-" then None else Some (dec n) in
      opts := (kind_of_code k, single, name, dec_list d) :: !opts
    | ["a"; x] -> args := dec x :: !args
    | ["f"; n; l] -> files := (dec n, dec_list l) :: !files
    | _ -> ()) toks;
  let opts = List.rev !opts and args = List.rev !args and files = List.rev !files in
  (* option 0 is the help flag cmdline.New always declares *)
  let help = m_mk_option (Some (z_of_int 104)) (Some (utf8_decode "help")) KBool in
  let table = help :: List.map (fun (k, s, n, _) -> m_mk_option s n k) opts in
  let model =
    match m_parse table files args with
    | Fatal -> "EXIT1"
    | Done (sets, rest) ->
      let vals = List.mapi (fun i (k, _, _, defs) ->
        let mine = List.filter_map (fun (j, v) -> if int_of_nat j = i + 1 then Some v else None) sets in
        match k with
        | KSlice e -> "[" ^ String.concat "," (List.map (canon e) (defs @ mine)) ^ "]"
        | _ -> (match List.rev mine with v :: _ -> canon k v | [] -> (match defs with d :: _ -> canon k d | [] -> zero_of k))) opts in
      String.concat "|" (("ok" :: vals) @ ["R:" ^ String.concat "," (List.map enc rest)]) in
  let errs = ref [] in
  if obs = "P" then errs := "kind=panic" :: !errs;
  (match !intent with
   | Some "fatal" -> if obs <> "EXIT1" then errs := "kind=malformed-vector-accepted" :: !errs
   | Some e when String.length e > 3 && String.sub e 0 3 = "ok:" ->
     let want = String.sub e 3 (String.length e - 3) in
     if obs = "EXIT1" then errs := "kind=valid-vector-rejected" :: !errs
     else if obs <> want then begin
       let r s = (match List.rev (String.split_on_char '|' s) with r :: _ -> r | [] -> "") in
       errs := (if r obs <> r want then "kind=wrong-remaining-args" else "kind=wrong-option-value") :: !errs end
   | _ -> ());
  let cls = (match !intent with Some "fatal" -> "malformed" | Some _ -> "intent" | None -> "raw")
            ^ (if files <> [] then "+files" else "") ^ (if model = "EXIT1" then "/fatal" else "/done") in
  (model, (if !errs = [] then "ok" else "FAIL " ^ String.concat "," !errs), cls)

let () = drive run
