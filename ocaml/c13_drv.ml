(* C13 driver. K: the rendering model's bytes for every Write, the error returned, multilog's deliveries and result.
   S: a sink receives exactly one Write per handled record (none when the level is below the handler's), the line equals the
   declarative reading (header, then every leaf once with its group prefix) whenever the attribute tree is solid, the handler
   first made is unaffected by derivations, multilog hands the record once to each enabled child and returns nil iff all
   succeeded; concurrent logging: whole records, no duplicates, per-goroutine order, exact count (sync), no blocking (buffered). *)
let hexs (l : z list) = if l = [] then "-" else String.concat "" (List.map (fun b -> Printf.sprintf "%02x" (int_of_z b)) l)
let unhex_dash s = if s = "-" then [] else bytes_of_hex s
let is_hex c = (c >= '0' && c <= '9') || (c >= 'a' && c <= 'f')
(* attrs := '(' [attr {',' attr}] ')'  attr := keyhex ':' value *)
let parse_attrs (s : string) : (z list * value) list =
  let pos = ref 0 in
  let peek () = if !pos < String.length s then s.[!pos] else '\000' in
  let hex () = let j = !pos in while is_hex (peek ()) do incr pos done; bytes_of_hex (let h = String.sub s j (!pos - j) in if h = "" then "-" else h) in
  let in_group = ref false in
  let rec attrs () =
    incr pos;
    let out = ref [] in
    while peek () <> ')' && peek () <> '\000' do
      let k = hex () in incr pos;
      let wrapped = (peek () = 'v') in
      let v = value () in
      (* slog.GroupValue drops members that are empty groups - but not a LogValuer that will only later resolve to one *)
      if wrapped || v <> VGroup [] || not !in_group then out := (k, v) :: !out;
      if peek () = ',' then incr pos
    done;
    incr pos; List.rev !out
  and value () =
    let c = peek () in incr pos;
    match c with
    | 's' -> VStr (hex ())
    | 'i' -> let j = !pos in if peek () = '-' then incr pos; while peek () >= '0' && peek () <= '9' do incr pos done; VInt (z_of_string (String.sub s j (!pos - j)))
    | 'b' -> incr pos; VBool (s.[!pos - 1] = '1')
    | 't' -> VTime | 'n' -> VNil
    | 'g' -> let saved = !in_group in in_group := true; let l = attrs () in in_group := saved; VGroup l
    | 'v' -> value ()
    | _ -> VNil in
  attrs ()

let run (c : string) (obs : string) : string * string * string =
  let toks = List.filter (fun o -> words o <> []) (String.split_on_char ';' c) in
  let errs = ref [] in
  let add k = if not (List.mem k !errs) then errs := k :: !errs in
  if obs = "P" then add "kind=panic"; if obs = "HANG" then add "kind=hang"; if obs = "CRASH" then add "kind=process-crash";
  let verdict () = if !errs = [] then "ok" else "FAIL " ^ String.concat "," (List.rev !errs) in
  match List.map words toks with
  | ("conc" :: mode :: _) :: _ ->
    let flags = List.filter (fun w -> String.contains w '=') (words obs) in
    List.iter (fun w -> if w.[String.length w - 1] <> '1' then add ("kind=concurrent-" ^ String.sub w 0 (String.index w '='))) flags;
    if List.length flags <> 5 && !errs = [] then add "kind=malformed-observation";
    ("whole=1 nodup=1 order=1 count=1 noblock=1", verdict (), "conc-" ^ mode)
  | ["new"; mode; minl; _] :: rest ->
    let minl = z_of_int (int_of_string minl) in
    let hs = ref [| [] |] and failing = ref false in
    let out = ref [] and spec_out = ref [] in
    List.iter (function
      | ["grp"; h; k] -> hs := Array.append !hs [| m_with_group (!hs).(int_of_string h) (unhex_dash k) |]
      | ["att"; h; a] -> hs := Array.append !hs [| m_with_attrs (!hs).(int_of_string h) (parse_attrs a) |]
      | ["fail"; b] -> failing := (b = "1")
      | ["log"; h; lvl; msg; st; a] ->
        let hl = (!hs).(int_of_string h) and attrs = parse_attrs a and lvl = z_of_int (int_of_string lvl) and msg = unhex_dash msg in
        let st1 = (st = "1" || st = "2") in     (* 2: the record was created by errs' own logging functions, which swallow the handler's error *)
        let r = m_mk_record lvl msg attrs st1 in
        if m_enabled minl r then begin
          let e = if st = "2" then "?" else if mode = "buf" then "0" else if !failing then "1" else "0" in
          out := (e ^ ":" ^ hexs (m_bytes_of hl r)) :: !out;
          spec_out := (if m_solid hl attrs then Some (e ^ ":" ^ hexs (m_spec_line hl lvl msg attrs @ (if st1 then bytes_of_hex "3c535441434b3e0a" else []))) else None) :: !spec_out
        end else begin out := "-:" :: !out; spec_out := Some "-:" :: !spec_out end
      | _ -> ()) rest;
    let model = String.concat " / " (List.rev !out) in
    let steps = if obs = "" then [] else split_on " / " obs in
    let specs = List.rev !spec_out in
    if !errs = [] then begin
      if List.length steps <> List.length specs then add "kind=malformed-observation"
      else List.iter2 (fun s sp ->
        let nwrites = (match String.index_opt s ':' with Some i -> let w = String.sub s (i + 1) (String.length s - i - 1) in if w = "" then 0 else List.length (String.split_on_char ',' w) | None -> 0) in
        (match sp with
         | Some "-:" -> if nwrites <> 0 then add "kind=record-below-level-written"
         | _ -> if nwrites = 0 then add "kind=record-not-written" else if nwrites > 1 then add "kind=record-written-more-than-once");
        (match sp with Some x when x <> s && nwrites = 1 -> add "kind=line-is-not-header-plus-every-attribute-once" | _ -> ())) steps specs
    end;
    (model, verdict (), "seq-" ^ mode ^ (if List.exists (function ("grp" | "att") :: _ -> true | _ -> false) rest then "+derived" else ""))
  | ("multi" :: spec) :: rest ->
    let kids = (match spec with [] -> [] | s :: _ -> List.map (fun k -> match String.split_on_char ':' k with
      | [m; b] -> (int_of_string m, b) | _ -> (0, "ok")) (String.split_on_char ',' s)) in
    let cs = List.map (fun (m, b) -> m_mk_child (z_of_int m) (match b with "fail" -> BFail | "panic" -> BPanic | _ -> BOk)) kids in
    let chain = ref "" and n = ref 0 in
    let out = ref [] in
    List.iter (function
      | ["mg"; k] -> if k <> "-" then chain := !chain ^ "g" ^ (let b = bytes_of_hex k in String.init (List.length b) (fun i -> Char.chr (int_of_z (List.nth b i))))
      | ["ma"; a] -> chain := !chain ^ "a" ^ string_of_int (List.length (parse_attrs a))   (* multilog passes WithAttrs on even for an empty list *)
      | ["mh"; lvl] ->
        incr n;
        let r = m_mk_record (z_of_int (int_of_string lvl)) [] [] false in
        let (flags, err) = m_multi_handle cs r in
        let log = List.concat (List.mapi (fun i f -> if f then [Printf.sprintf "%d[%s]r%d" i !chain !n] else []) flags) in
        out := Printf.sprintf "en=%d err=%d %s" (if m_multi_enabled cs (z_of_int (int_of_string lvl)) then 1 else 0) (if err then 1 else 0) (String.concat "," log) :: !out
      | ["mp"] ->
        incr n;
        let r = m_mk_record (z_of_int 8) [] [] false in
        let (flags, err) = m_multi_handle cs r in
        let log = List.concat (List.mapi (fun i f -> if f then [Printf.sprintf "%d[]r%d" i !n] else []) flags) in
        out := Printf.sprintf "en=1 err=%d %s" (if err then 1 else 0) (String.concat "," log) :: !out
      | _ -> ()) rest;
    let model = String.concat " / " (List.rev !out) in
    (* S: straight from the statement, on the implementation's answers *)
    let steps = if obs = "" then [] else split_on " / " obs in
    let mh = List.filter (function ("mh" | "mp") :: _ -> true | _ -> false) rest in
    if !errs = [] then begin
      if List.length steps <> List.length mh then add "kind=malformed-observation"
      else List.iter2 (fun o s ->
        let lvl = (match o with ["mh"; l] -> int_of_string l | _ -> 8) in
        let ws = words s in
        let got = (match ws with [_; _; l] -> String.split_on_char ',' l | _ -> []) in
        let ids = List.map (fun e -> try int_of_string (String.sub e 0 (String.index e '[')) with _ -> -1) got in
        let want = List.concat (List.mapi (fun i (m, _) -> if lvl >= m then [i] else []) kids) in
        if List.sort compare ids <> want then add (if List.length ids > List.length (List.sort_uniq compare ids) then "kind=child-handed-record-twice" else "kind=enabled-child-skipped-or-disabled-child-called");
        let all_ok = List.for_all (fun (m, b) -> lvl < m || b = "ok") kids in
        if List.mem "err=0" ws <> all_ok then add "kind=result-nil-iff-all-succeeded";
        (match o with ["mp"] -> if List.exists (fun e -> not (String.length e > 3 && String.contains e '[' && e.[String.index e '[' + 1] = ']')) got then add "kind=derivation-changed-parent" | _ -> ())) mh steps
    end;
    (model, verdict (), "multi")
  | _ -> ("BADCASE", "ok", "bad")

let () = drive run
