(* C16 driver. K: the sequential model's answers and LastUsed/Closed/Cap of every limiter after every operation.
   S, on the implementation's own answers: a request is answered at most once and, once the root is closed, exactly once;
   negative amounts, amounts above the limiter's own cap and closed limiters are refused; in every period the amounts granted
   to a limiter and its descendants stay within its capacity (periods in which SetCap lowered it excepted) and LastUsed after
   the tick is that sum; Close never hangs. *)
let kind_char = function Granted -> "G" | ErrNeg -> "N" | ErrCap -> "C" | ErrClosed -> "X"

let run (c : string) (obs : string) : string * string * string =
  let toks = List.filter (fun o -> words o <> []) (String.split_on_char ';' c) in
  match List.map words toks with
  | ("hot" :: _) :: _ -> ("ok", (if obs = "ok" then "ok" else "FAIL kind=" ^ (if String.length obs >= 10 && String.sub obs 0 10 = "CLOSE-HUNG" then "close-hung" else "hot-" ^ obs)), "hot")
  | ["root"; rc] :: rest ->
    let ops = List.filter_map (function
      | ["use"; rid; l; a] -> Some (OUse (nat_of_int (int_of_string rid), nat_of_int (int_of_string l), z_of_int (int_of_string a)))
      | ["tick"] -> Some OTick
      | ["close"; l] -> Some (OClose (nat_of_int (int_of_string l)))
      | ["new"; p; cp] -> Some (ONew (nat_of_int (int_of_string p), z_of_int (int_of_string cp)))
      | ["setcap"; l; cp] -> Some (OSetCap (nat_of_int (int_of_string l), z_of_int (int_of_string cp)))
      | _ -> None) rest in
    let res = m_run (m_init (z_of_int (int_of_string rc))) ops in
    let show (out, sts) =
      String.concat "," (List.sort compare (List.map (fun (rid, a) -> Printf.sprintf "%03d=%s" (int_of_nat rid) (kind_char a)) out)) ^ "|" ^
      String.concat "," (List.map (fun ((l, cl), cp) -> Printf.sprintf "%s:%s:%s" (string_of_z l) (if cl then "1" else "0") (string_of_z cp)) sts) in
    let model = String.concat " / " (List.map show res) in
    (* S on the implementation's answers *)
    let errs = ref [] in
    let add k = if not (List.mem k !errs) then errs := k :: !errs in
    let steps = if obs = "" then [] else split_on " / " obs in
    if List.exists (fun s -> s = "CLOSE-HUNG") steps then add "kind=close-hung";
    if List.exists (fun s -> String.length s > 10 && String.sub s 0 10 = "UNANSWERED") steps then add "kind=request-never-answered";
    if obs = "P" then add "kind=panic";
    if obs = "HANG" then add "kind=hang";
    let n_ops = List.length ops in
    if !errs = [] && List.length steps <> n_ops then add "kind=malformed-observation";
    let ticks = ref 0 in
    if !errs = [] then begin
      (* bookkeeping from the case text: tree, caps, requests *)
      let parent = Hashtbl.create 8 and cap = Hashtbl.create 8 and closed = Hashtbl.create 8 in
      Hashtbl.replace parent 0 (-1); Hashtbl.replace cap 0 (int_of_string rc); Hashtbl.replace closed 0 false;
      let nl = ref 1 in
      let req = Hashtbl.create 16 (* rid -> limiter, amount *) and answered = Hashtbl.create 16 in
      let granted = Hashtbl.create 8 (* limiter -> amount granted this period to it and descendants *) in
      let lowered = ref false in
      let rec chain l = if l < 0 then [] else l :: chain (Hashtbl.find parent l) in
      List.iter2 (fun o s ->
        let (ans, st) = (match String.index_opt s '|' with
          | Some i -> (String.sub s 0 i, String.sub s (i + 1) (String.length s - i - 1)) | None -> (s, "")) in
        let answers = if ans = "" then [] else List.map (fun a -> (int_of_string (String.sub a 0 3), String.sub a 4 1)) (String.split_on_char ',' ans) in
        (match o with
         | OUse (rid, l, a) -> Hashtbl.replace req (int_of_nat rid) (int_of_nat l, int_of_z a)
         | ONew (p, cp) -> if not (Hashtbl.find closed (int_of_nat p)) then begin
             Hashtbl.replace parent !nl (int_of_nat p); Hashtbl.replace cap !nl (int_of_z cp); Hashtbl.replace closed !nl false; incr nl end
         | OSetCap (l, cp) -> if int_of_z cp < Hashtbl.find cap (int_of_nat l) then lowered := true; Hashtbl.replace cap (int_of_nat l) (int_of_z cp)
         | OClose l -> Hashtbl.iter (fun j _ -> if List.mem (int_of_nat l) (chain j) then Hashtbl.replace closed j true) (Hashtbl.copy closed)
         | OTick -> ());
        (* at a tick the period's sums are reported by LastUsed, then a new period starts (before the waiting requests are served) *)
        (match o with
         | OTick when not (Hashtbl.find closed 0) ->
           incr ticks;
           let sts = if st = "" then [] else String.split_on_char ',' st in
           List.iteri (fun l x ->
             match String.split_on_char ':' x with
             | [lu; cl; _] -> if cl = "0" && int_of_string lu <> (try Hashtbl.find granted l with Not_found -> 0) then add "kind=last-used-is-not-the-period-sum"
             | _ -> add "kind=malformed-observation") sts;
           Hashtbl.reset granted; lowered := false
         | _ -> ());
        List.iter (fun (rid, k) ->
          if Hashtbl.mem answered rid then add "kind=request-answered-twice";
          Hashtbl.replace answered rid k;
          match Hashtbl.find_opt req rid with
          | None -> add "kind=answer-without-request"
          | Some (l, a) ->
            if a < 0 && k <> "N" then add "kind=negative-amount-not-refused";
            if k = "N" && a >= 0 then add "kind=wrong-refusal";
            if k = "G" && a > 0 then begin
              if Hashtbl.find closed l then add "kind=granted-on-closed-limiter";
              List.iter (fun j ->
                let g = (try Hashtbl.find granted j with Not_found -> 0) + a in
                Hashtbl.replace granted j g;
                if g > Hashtbl.find cap j && not !lowered then add "kind=granted-beyond-a-cap") (chain l) end) answers) ops steps;
      (* every case ends with the root closed: every request must have its one answer *)
      Hashtbl.iter (fun rid _ -> if not (Hashtbl.mem answered rid) then add "kind=request-never-answered") req
    end;
    let cls = (if List.exists (function ONew _ -> true | _ -> false) ops then "tree" else "flat") ^ (if !ticks > 0 then "+ticks" else "") in
    (model, (if !errs = [] then "ok" else "FAIL " ^ String.concat "," (List.rev !errs)), cls)
  | _ -> ("BADCASE", "ok", "bad")

let () = drive run
