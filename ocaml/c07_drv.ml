(* C07 driver. K: the quadtree model's Size/All/sixteen queries after every op as sorted id multisets.
   S: a linear scan of the live multiset with independently coded rectangle predicates on exact rationals. *)
let q_of_string (s : string) : q =
  let r = BQ.of_string s in { qnum = z_of_bz (BQ.num r); qden = pos_of_bz (BQ.den r) }
let b2s b = if b then "1" else "0"
let ids (l : obj list) : string =
  let v = List.sort compare (List.map (fun o -> int_of_z o.oid) l) in
  if v = [] then "." else String.concat "," (List.map string_of_int v)
let sids (v : int list) : string = let v = List.sort compare v in if v = [] then "." else String.concat "," (List.map string_of_int v)

let sp_nonempty (x, y, w, h) = BQ.gt w BQ.zero && BQ.gt h BQ.zero
let sp_in (px, py) ((x, y, w, h) as r) = sp_nonempty r && BQ.leq x px && BQ.leq y py && BQ.lt px (BQ.add x w) && BQ.lt py (BQ.add y h)
let sp_contains ((ax, ay, aw, ah) as a) ((bx, by, bw, bh) as b) =
  sp_nonempty a && sp_nonempty b && BQ.leq ax bx && BQ.leq ay by && BQ.leq (BQ.add bx bw) (BQ.add ax aw) && BQ.leq (BQ.add by bh) (BQ.add ay ah)
let sp_intersects ((ax, ay, aw, ah) as a) ((bx, by, bw, bh) as b) =
  sp_nonempty a && sp_nonempty b && BQ.lt ax (BQ.add bx bw) && BQ.lt ay (BQ.add by bh) && BQ.lt bx (BQ.add ax aw) && BQ.lt by (BQ.add ay ah)

let contains_sub (s : string) (sub : string) : bool =
  let n = String.length s and m = String.length sub in
  let rec go i = i + m <= n && (String.sub s i m = sub || go (i + 1)) in go 0
let run (c : string) (obs : string) : string * string * string =
  if contains_sub c "kind=g " then
    (* general floats: the exact model does not apply (x+w rounds); the harness compared every query with a linear scan using the
       library's own predicates and reports the first disagreement per operation *)
    (obs, (if obs = "PANIC" || contains_sub obs "PANIC" then "FAIL kind=panic"
           else if contains_sub obs "MISMATCH:" then
             "FAIL kind=" ^ (let i = ref 0 in (try while String.sub obs !i 9 <> "MISMATCH:" do incr i done with _ -> ()); 
                              let j = ref (!i + 9) in while !j < String.length obs && obs.[!j] <> ' ' do incr j done;
                              String.sub obs (!i + 9) (!j - !i - 9)) ^ "-query-differs-from-linear-scan"
           else "ok"), "float-general")
  else
  match split_on "|" c with
  | [hdr; body] ->
    let kind = ref "i" and th = ref 0 and pts = ref [] and prs = ref [] in
    List.iter (fun f ->
      let pre p = String.length f > String.length p && String.sub f 0 (String.length p) = p in
      let rest p = String.sub f (String.length p) (String.length f - String.length p) in
      if pre "kind=" then kind := rest "kind=";
      if pre "th=" then th := int_of_string (rest "th=");
      if pre "pts=" then pts := List.map (fun p -> match String.split_on_char ':' p with [x; y] -> (x, y) | _ -> failwith "pt") (String.split_on_char ',' (rest "pts="));
      if pre "rects=" then prs := List.map (fun p -> match String.split_on_char ':' p with [x; y; w; h] -> (x, y, w, h) | _ -> failwith "rc") (String.split_on_char ',' (rest "rects="))) (words hdr);
    let isint = (!kind = "i") in
    let ops = List.filter (fun o -> words o <> []) (String.split_on_char ';' body) in
    let q = ref (newqt (z_of_int !th) isint) in
    let known = Hashtbl.create 16 in              (* id -> rect strings, as the harness keeps the first node created for an id *)
    let live = ref [] in                          (* S: multiset of (id, rect) *)
    let errs = ref [] in
    let add k = if not (List.mem k !errs) then errs := k :: !errs in
    let impl = Array.of_list (split_on " / " obs) in
    let even o = (int_of_z o.oid) mod 2 = 0 in
    let allm _ = true in
    let maxlive = ref 0 in
    let outs = List.mapi (fun k o ->
      let mkobj id (x, y, w, h) = { oid = z_of_int id; orect = { rx = q_of_string x; ry = q_of_string y; rw = q_of_string w; rh = q_of_string h } } in
      (match words o with
       | ["ins"; id; x; y; w; h] ->
         let id = int_of_string id in
         if not (Hashtbl.mem known id) then Hashtbl.replace known id (x, y, w, h);
         let r = Hashtbl.find known id in
         q := step !q (OIns (mkobj id r));
         let (x, y, w, h) = r in
         let t = (BQ.of_string x, BQ.of_string y, BQ.of_string w, BQ.of_string h) in
         if sp_nonempty t then live := !live @ [(id, t)]
       | ["rem"; id] ->
         let id = int_of_string id in
         let r = (try Hashtbl.find known id with Not_found -> ("0", "0", "1", "1")) in
         q := step !q (ORem (mkobj id r));
         let rec rm = function [] -> [] | (i, t) :: r -> if i = id then r else (i, t) :: rm r in
         live := rm !live
       | ["reorg"] -> q := step !q OReorg
       | ["clear"] -> q := step !q OClear; live := []
       | _ -> ());
      if List.length !live > !maxlive then maxlive := List.length !live;
      let buf = Buffer.create 512 and sbuf = Buffer.create 512 in
      Buffer.add_string buf (Printf.sprintf "n=%s all=%s" (string_of_z (count !q)) (ids (qall !q)));
      Buffer.add_string sbuf (Printf.sprintf "n=%d all=%s" (List.length !live) (sids (List.map fst !live)));
      let spec_q pred = 
        let hits = List.filter (fun (_, t) -> pred t) !live in
        let hm = List.filter (fun (i, _) -> i mod 2 = 0) hits in
        Printf.sprintf "%s:%s:%s:%s" (sids (List.map fst hits)) (b2s (hits <> [])) (sids (List.map fst hm)) (b2s (hm <> [])) in
      List.iter (fun (x, y) ->
        let px = q_of_string x and py = q_of_string y in
        Buffer.add_string buf (Printf.sprintf " P:%s:%s:%s:%s" (ids (find_point !q px py allm)) (b2s (any_point !q px py allm))
          (ids (find_point !q px py even)) (b2s (any_point !q px py even)));
        let p = (BQ.of_string x, BQ.of_string y) in
        Buffer.add_string sbuf (" P:" ^ spec_q (fun t -> sp_in p t))) !pts;
      List.iter (fun (x, y, w, h) ->
        let r = { rx = q_of_string x; ry = q_of_string y; rw = q_of_string w; rh = q_of_string h } in
        let t = (BQ.of_string x, BQ.of_string y, BQ.of_string w, BQ.of_string h) in
        let four fnd an = Printf.sprintf "%s:%s:%s:%s" (ids (fnd !q r allm)) (b2s (an !q r allm)) (ids (fnd !q r even)) (b2s (an !q r even)) in
        Buffer.add_string buf (" I:" ^ four find_inter any_inter ^ " C:" ^ four find_contains any_contains ^ " W:" ^ four find_within any_within);
        Buffer.add_string sbuf (" I:" ^ spec_q (fun o -> sp_intersects o t) ^ " C:" ^ spec_q (fun o -> sp_contains o t) ^ " W:" ^ spec_q (fun o -> sp_contains t o))) !prs;
      (* S: the implementation's observation against the linear scan, field by field *)
      (if k < Array.length impl then begin
         let got = words impl.(k) and want = words (Buffer.contents sbuf) in
         if impl.(k) = "PANIC" then add "kind=panic"
         else if List.length got <> List.length want then add "kind=malformed-observation"
         else List.iter2 (fun g w -> if g <> w then
             add (match g.[0] with 'n' -> "kind=size" | 'a' -> "kind=all" | 'P' -> "kind=point-query" | 'I' -> "kind=intersects-query"
                  | 'C' -> "kind=contains-rect-query" | 'W' -> "kind=contained-by-query" | _ -> "kind=malformed-observation")) got want
       end else if obs <> "PANIC" then add "kind=observation-count" else add "kind=panic");
      Buffer.contents buf) ops in
    let verdict = if !errs = [] then "ok" else "FAIL " ^ String.concat "," (List.rev !errs) in
    let th' = if !th < 4 then 64 else !th in
    (String.concat " / " outs, verdict,
     (if List.length ops < 3 then "short-trivial" else (if isint then "int" else "float") ^ (if !maxlive > th' then "+split" else "+flat")))
  | _ -> ("BADCASE", "ok", "bad")

let () = drive run
