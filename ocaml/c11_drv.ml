(* C11 driver. K: the store model's rendering of every value after every step. S: on the implementation's own renderings:
   result of Append = items(acc) ++ items(args) in order, nil iff none, every value outside the accumulator's pointer unchanged. *)
let msg_of (it : item) = match it.icause with Some id -> "p" ^ string_of_z id | None -> "m" ^ string_of_z it.imsg
let describe (st : store) (v : val0) : string =
  match v with
  | VNil -> "nil" | VTypedNilErr -> "tnil" | VTypedNilCustom -> "tnilc"
  | VPlain id -> "plain:p" ^ string_of_z id
  | VRef a -> let c = chain_of st a in
    Printf.sprintf "%s%d[%s]" (if c = [] then "e" else "E") (List.length c) (String.concat "," (List.map msg_of c))
let nats l = List.map nat_of_int l
let parse_op (o : string) : op option =
  match words o with
  | ["new"; m] -> Some (ONew (z_of_string m)) | ["plain"; m] -> Some (OPlain (z_of_string m))
  | ["nil"] -> Some ONilV | ["tnil"] -> Some OTNil | ["tnilc"] | ["tnils"] | ["tnilm"] -> Some OTNilC | ["empty"] -> Some OEmpty
  | ["outer"; m; _] -> Some (OPlain (z_of_string m))
  | ["app"; a; l] -> Some (OAppend (nat_of_int (int_of_string a), (if l = "." then [] else nats (List.map int_of_string (String.split_on_char ',' l)))))
  | ["wrap"; i] -> Some (OWrap (nat_of_int (int_of_string i)))
  | _ -> None

(* content of a rendered value as a message list; None for non-*Error renderings *)
let content (d : string) : string list option =
  match String.index_opt d '[' with
  | Some i when String.length d > 0 && (d.[0] = 'E' || d.[0] = 'e') ->
    let inner = String.sub d (i + 1) (String.length d - i - 2) in
    Some (if inner = "" then [] else String.split_on_char ',' inner)
  | _ -> None
let arg_items (d : string) : string list =
  match content d with Some l -> l | None ->
    if String.length d > 6 && String.sub d 0 6 = "plain:" then [String.sub d 6 (String.length d - 6)] else []

let run (c : string) (obs : string) : string * string * string =
  let ops = List.filter (fun o -> words o <> []) (String.split_on_char ';' c) in
  let state = ref ([], []) in
  let errs = ref [] in
  let add k = if not (List.mem k !errs) then errs := k :: !errs in
  let impl = Array.of_list (split_on " / " obs) in
  let prev = ref [||] in                  (* the implementation's renderings after the previous step *)
  let cls = ref [||] in                   (* pointer class of each value according to the specification *)
  let nextcls = ref 0 in
  let fresh () = incr nextcls; !nextcls in
  let nagg = ref 0 in
  let outs = List.mapi (fun k o ->
    (match parse_op o with Some p -> state := step !state p | None -> ());
    let (st, vs) = !state in
    (* ---- S *)
    (if k < Array.length impl then begin
      try
        let fields = words impl.(k) in
        if List.mem "PANIC" fields then add "kind=panic" else begin
        let descr = Array.of_list (List.filter (fun w -> not (String.contains w '=')) fields) in
        let nprev = Array.length !prev in
        if Array.length descr <> nprev + 1 then add "kind=malformed-observation" else begin
          let last = descr.(nprev) in
          let unchanged_except clsid =
            Array.iteri (fun i d -> if (clsid < 0 || !cls.(i) <> clsid) && d <> descr.(i) then add "kind=argument-modified") !prev in
          let newcls =
            (match words o with
             | ["app"; a; l] ->
               let a = int_of_string a in
               let args = if l = "." then [] else List.map int_of_string (String.split_on_char ',' l) in
               if List.exists (fun i -> match content !prev.(i) with Some m -> List.length m >= 2 | None -> false) args then incr nagg;
               let acc_items = arg_items !prev.(a) in
               let acc_is_err = (match content !prev.(a) with Some (_ :: _) -> true | _ -> false) in
               (* arguments are appended one after the other; an argument that is the accumulator's own pointer is read as grown so far *)
               let want = List.fold_left (fun cur i ->
                   cur @ (if acc_is_err && !cls.(i) = !cls.(a) then cur else arg_items !prev.(i))) acc_items args in
               (match content last with
                | Some got ->
                  if got <> want then add "kind=append-items";
                  if want = [] then add "kind=append-not-nil";
                  if String.length last > 1 && (try int_of_string (String.sub last 1 (String.index last '[' - 1)) <> List.length want with _ -> true) then add "kind=count"
                | None -> if last <> "tnil" then add "kind=append-result-kind" else if want <> [] then add "kind=append-items");
               if acc_is_err then (unchanged_except !cls.(a); !cls.(a)) else (unchanged_except (-1); fresh ())
             | ["wrap"; i] ->
               let i = int_of_string i in
               let src = !prev.(i) in
               unchanged_except (-1);
               (match content src with
                | Some _ -> if last <> src then add "kind=wrap-existing-error"; !cls.(i)
                | None ->
                  if src = "nil" || src = "tnil" || src = "tnilc" then (if last <> "nil" then add "kind=wrap-nil"; fresh ())
                  else (if content last <> Some (arg_items src) then add "kind=wrap-message"; fresh ()))
             | _ -> unchanged_except (-1); fresh ()) in
          cls := Array.append !cls [| newcls |];
          if List.mem "is=0" fields then add "kind=cause-unreachable";
          if List.mem "agree=0" fields then add "kind=wrap-vs-wraptyped";
          if List.mem "fmt=0" fields then add "kind=format-rendering";
          (match words o with ["wrap"; i] when (match content !prev.(int_of_string i) with Some _ -> true | None -> false) ->
             if not (List.mem "same=1" fields) then add "kind=wrap-existing-error" | _ -> ());
          prev := descr
        end end
      with _ -> add "kind=malformed-observation"
    end else add "kind=observation-count");
    (* ---- K *)
    let n = List.length vs in
    let last = List.nth vs (n - 1) in
    let alias = (match last with
      | VRef a -> let rec find i = function [] -> n - 1 | VRef b :: _ when b = a -> i | _ :: r -> find (i + 1) r in find 0 vs
      | _ -> n - 1) in
    let extra =
      (match words o with
       | "app" :: _ -> (match last with VRef _ -> " is=1" | _ -> "")
       | ["wrap"; i] ->
         let src = List.nth vs (int_of_string i) in
         Printf.sprintf " same=%s is=%s agree=1" (match src with VRef _ -> "1" | _ -> "0") (match src with VPlain _ -> "1" | _ -> "-")
       | _ -> "") in
    let fmtok = (match last with VRef a when chain_of st a <> [] -> " fmt=1" | _ -> "") in
    Printf.sprintf "a=%d %s%s%s" alias (String.concat " " (List.map (describe st) vs)) extra fmtok) ops in
  let verdict = if !errs = [] then "ok" else "FAIL " ^ String.concat "," (List.rev !errs) in
  let napp = List.length (List.filter (fun o -> match words o with "app" :: _ -> true | _ -> false) ops) in
  (String.concat " / " outs, verdict, if napp = 0 then "no-append-trivial" else if !nagg > 0 then "aggregate-args" else "simple-args")

let () = drive run
