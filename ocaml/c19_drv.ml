(* C19 driver. K: the symbolic file system after the model's extraction - the whole tree under base (types, modes, payloads,
   link targets, hard-link groups) and the success flag. S, on the implementation's own tree: everything outside dst (outside/,
   cwd/, base itself) is exactly as before - nothing created, modified or hard-linked into the destination; when extraction
   reports success every recorded entry is there (the last entry of a path wins) with its payload, permission bits (masked) or
   link target; a name that leaves the destination lexically is refused. *)
let names = [| "."; ".."; "dst"; "outside"; "a"; "b"; "c"; "lnk"; "x"; "secret"; "cwd"; "f"; "nowhere"; "deep"; "dstx"; "made"; "l" |]
let id_of s = let r = ref (-1) in Array.iteri (fun i n -> if n = s then r := i) names; if !r < 0 then failwith ("name " ^ s) else !r
let comps (s : string) : nat list = List.filter_map (fun c -> if c = "" then None else Some (nat_of_int (id_of c))) (String.split_on_char '/' s)
let show_path (p : nat list) = String.concat "/" (List.map (fun c -> names.(int_of_nat c)) p)
let umask = 0o022

let run (c : string) (obs : string) : string * string * string =
  let errs = ref [] in
  let add k = if not (List.mem k !errs) then errs := k :: !errs in
  if obs = "P" then add "kind=panic"; if obs = "HANG" then add "kind=hang";
  let toks = List.filter (fun o -> words o <> []) (String.split_on_char ';' c) in
  match List.map words toks with
  | ["corrupt"; _; _] :: _ ->
    if List.mem "ok=1" (words obs) then add "kind=corrupted-entry-reported-as-extracted";
    ("ok=0", (if !errs = [] then "ok" else "FAIL " ^ String.concat "," (List.rev !errs)), "corrupt-zip")
  | ["efbig"; _; limit; size] :: _ ->
    let fits = int_of_string size <= int_of_string limit in
    (* the statement itself: success is reported exactly when the entry was written in full *)
    let ws = words obs in
    if List.mem "ok=1" ws && not (List.mem "complete=1" ws) then add "kind=incomplete-entry-reported-as-extracted";
    if List.mem "ok=0" ws && fits then add "kind=complete-entry-refused";
    ((if fits then "ok=1 complete=1" else "ok=0 complete=0"), (if !errs = [] then "ok" else "FAIL " ^ String.concat "," (List.rev !errs)), if fits then "size-limit/fits" else "size-limit/too-big")
  | [kind; mask] :: rest ->
    let mask = int_of_string ("0o" ^ mask) in
    let root = [nat_of_int 2] in
    (* the world below base before extraction *)
    let fs0 = ref (m_mk_fs [ ([nat_of_int 2], NDir (nat_of_int 0o755)); ([nat_of_int 3], NDir (nat_of_int 0o755)); ([nat_of_int 3; nat_of_int 9], NFile (nat_of_int 0));
                              ([nat_of_int 10], NDir (nat_of_int 0o755)); ([nat_of_int 10; nat_of_int 11], NFile (nat_of_int 1));
                              ([nat_of_int 14], NDir (nat_of_int 0o755)); ([nat_of_int 14; nat_of_int 9], NFile (nat_of_int 2)) ]
                            [ (nat_of_int 0, nat_of_int 0o644); (nat_of_int 1, nat_of_int 0o644); (nat_of_int 3, nat_of_int 0o644) ]) in
    let entries = ref [] in
    List.iter (function
      | "pre" :: k :: p :: tl ->
        let p = comps p in
        (* parents of a pre-seeded item *)
        let rec prefixes acc = function [] -> [] | x :: r -> let a = acc @ [x] in a :: prefixes a r in
        List.iter (fun d -> if not (List.exists (fun (q, _) -> q = d) (!fs0).tree) && d <> p then fs0 := m_put !fs0 d (NDir (nat_of_int 0o755))) (prefixes [] p);
        if not (List.exists (fun (q, _) -> q = p) (!fs0).tree) then
          (match k, tl with
           | "d", _ -> fs0 := m_put !fs0 p (NDir (nat_of_int 0o755))
           | "f", _ -> let i = List.length (!fs0).inodes in fs0 := m_mk_fs ((!fs0).tree @ [(p, NFile (nat_of_int i))]) ((!fs0).inodes @ [(nat_of_int 2, nat_of_int 0o644)])
           | "s", [ab; t] -> fs0 := m_put !fs0 p (NSym (ab = "1", comps t))
           | _ -> ())
      | ["e"; t; name; mode; payload; ab; target] ->
        let ty = (match t with "r" | "p" | "k" | "v" -> TReg | "d" -> TDir | "s" -> TSym | "q" -> TIgn | _ -> TLink) in
        if not (kind = "zip" && t = "l") then
          entries := m_mk_entry (comps name) ty (ab = "1") (if target = "-" then [] else comps target) (nat_of_int (int_of_string payload)) (nat_of_int (int_of_string ("0o" ^ mode))) :: !entries
      | _ -> ()) rest;
    let entries = List.rev !entries in
    let perm m = nat_of_int ((int_of_nat m) land mask land (lnot umask)) in
    let pmode = nat_of_int (0o755 land mask land (lnot umask)) in
    let (f1, ok) = m_extract root perm perm pmode !fs0 entries in
    (* rendering: the first binding of a path wins in [look]; the model never rebinds a path *)
    let tree = f1.tree in
    let group i = List.fold_left (fun best (p, n) -> match n with NFile j when j = i -> let s = show_path p in if best = "" || s < best then s else best | _ -> best) "" tree in
    let desc (p, n) = (match n with
      | NDir m -> Printf.sprintf "D:%o" (int_of_nat m)
      | NFile i -> let (cn, md) = List.nth f1.inodes (int_of_nat i) in Printf.sprintf "F:%s:%d:%o" (group i) (int_of_nat cn) (int_of_nat md)
      | NSym (ab, t) -> "L:" ^ (if ab then "a:" else "r:") ^ show_path t) in
    let items = List.sort compare (List.map (fun (p, n) -> (show_path p, desc (p, n))) tree) in
    let model = Printf.sprintf "ok=%d|%s" (if ok then 1 else 0) (String.concat "," (List.map (fun (p, d) -> p ^ "=" ^ d) items)) in
    (* S on the observed tree *)
    let (okflag, body) = (match String.index_opt obs '|' with Some i -> (String.sub obs 0 i, String.sub obs (i + 1) (String.length obs - i - 1)) | None -> (obs, "")) in
    let got = if body = "" then [] else List.map (fun it -> match String.index_opt it '=' with
      | Some i -> (String.sub it 0 i, String.sub it (i + 1) (String.length it - i - 1)) | None -> (it, "")) (String.split_on_char ',' body) in
    let inside p = String.length p >= 4 && String.sub p 0 4 = "dst/" || p = "dst" in
    let pre_outside = List.filter (fun (p, _) -> not (inside p)) (List.sort compare (List.map (fun (p, n) -> (show_path p,
      (match n with NDir m -> Printf.sprintf "D:%o" (int_of_nat m) | NFile i -> let (cn, md) = List.nth (!fs0).inodes (int_of_nat i) in Printf.sprintf "F:%s:%d:%o" (show_path p) (int_of_nat cn) (int_of_nat md)
                    | NSym (ab, t) -> "L:" ^ (if ab then "a:" else "r:") ^ show_path t))) (!fs0).tree)) in
    if !errs = [] then begin
      let got_outside = List.filter (fun (p, _) -> not (inside p)) got in
      if got_outside <> pre_outside then add "kind=something-outside-the-destination-was-created-modified-or-linked";
      (* a file inside that shares an inode with a path outside *)
      List.iter (fun (p, d) -> if inside p && String.length d > 2 && String.sub d 0 2 = "F:" then
        (match String.split_on_char ':' d with _ :: g :: _ -> if not (inside g) then add "kind=something-outside-the-destination-was-created-modified-or-linked" | _ -> ())) got;
      if okflag = "ok=1" then
        (* every recorded entry is there: by clean lexical path; the last entry of a path wins; only checked when no symbolic link is involved anywhere, where "there" is unambiguous *)
        let simple = List.for_all (fun e -> e.etyp = TReg || e.etyp = TDir) entries && not (List.exists (fun (_, d) -> String.length d > 1 && d.[0] = 'L') got) in
        if simple then List.iter (fun e ->
          let rec clean acc = function [] -> acc | x :: r -> let i = int_of_nat x in if i = 0 then clean acc r else if i = 1 then clean (match List.rev acc with [] -> [] | _ :: t -> List.rev t) r else clean (acc @ [x]) r in
          let p = "dst/" ^ show_path (clean [] e.ename) in
          let later = List.exists (fun e' -> e' != e && show_path (clean [] e'.ename) = show_path (clean [] e.ename)) entries in
          match List.assoc_opt p got with
          | None -> add "kind=recorded-entry-missing"
          | Some d -> if not later then (match e.etyp with
              | TReg -> (match String.split_on_char ':' d with
                  | ["F"; _; cn; _] -> if cn <> string_of_int (int_of_nat e.payload) then add "kind=file-content-differs"
                  | _ -> add "kind=recorded-entry-has-wrong-type")
              | _ -> if d.[0] <> 'D' then add "kind=recorded-entry-has-wrong-type")) entries
    end;
    let cls = kind ^ (if List.exists (fun e -> e.etyp = TSym) entries || List.exists (function "pre" :: "s" :: _ -> true | _ -> false) rest then "+symlinks" else "")
              ^ (if List.exists (fun e -> e.etyp = TLink) entries then "+hardlinks" else "") ^ (if ok then "/ok" else "/refused") in
    (model, (if !errs = [] then "ok" else "FAIL " ^ String.concat "," (List.rev !errs)), cls)
  | _ -> ("BADCASE", "ok", "bad")

let () = drive run
